#!/bin/bash
# usage: try_mutant.sh <patch.diff> <ID> [ID...]   - applies the patch in a scratch worktree of /repo and runs the checks
# against it (SVMC_REPO); the worktree is removed afterwards. /repo itself is not touched.
set -u
patch=$(readlink -f "$1"); shift
wt=$(mktemp -d /tmp/svmc-mut-XXXXXX)
git -C /repo worktree add -q --detach "$wt" HEAD || exit 3
trap 'git -C /repo worktree remove --force "$wt" >/dev/null 2>&1; rm -rf "$wt"' EXIT
if ! git -C "$wt" apply "$patch"; then echo "PATCH DOES NOT APPLY"; exit 3; fi
for id in "$@"; do
  out=$(cd /verif && SVMC_REPO="$wt" SVMC_EVID_DIR="$wt/.evid" ./check "$id" --tier "${TIER:-quick}" 2>&1)
  rc=$?
  echo "== $id rc=$rc"
  echo "$out" | grep -E "VIOLATION|HARNESS|KNOWN|^  C" | head -${LINES_MAX:-8}
done
