#!/venv/bin/python
"""Generate MANIFEST.json from the property modules that exist (keeps the manifest valid at all times)."""
import importlib, json, os, sys
HERE = os.path.dirname(os.path.dirname(os.path.abspath(__file__)))
sys.path.insert(0, HERE)
sys.path.insert(0, "/repo")
os.environ["SUIT_GENERATOR_VERIF"] = "1"

NOT_YET = "check not built yet in this round (planned, see DESIGN.md section 5); not claimed until it exists"
checks, na = [], []
props = [json.loads(l) for l in open(os.path.join(HERE, "properties.jsonl"))]
for p in props:
    pid = p["id"]
    try:
        mod = importlib.import_module(f"svmc.props.{pid.lower()}")
    except ModuleNotFoundError:
        na.append({"property_id": pid, "reason": NOT_YET})
        continue
    if getattr(mod, "NOT_APPLICABLE", None):
        na.append({"property_id": pid, "reason": mod.NOT_APPLICABLE})
        continue
    checks.append({
        "property_id": pid,
        "quick_cmd": f"./check {pid} --tier quick",
        "thorough_cmd": f"./check {pid} --tier thorough",
        "evidence_file": f"/verif/evidence/{pid}.json",
        "replay_cmd_template": f"./check {pid} --replay {{path}}",
        "engine": "svmc",
        "level_claimed": {"category": mod.LEVEL, "text": mod.LEVEL_TEXT if hasattr(mod, "LEVEL_TEXT") else mod.RULE,
                          "design_ref": f"DESIGN.md section 5, {pid}"},
        "level_note": "; ".join(getattr(mod, "ASSUMPTIONS", [])) or "trusted base: CPython, hashlib, svmc reference models",
        "technique": getattr(mod, "TECHNIQUE", "bounded exhaustive enumeration of executions of the real code against a reference model"),
    })
m = {
    "version": 1,
    "setup_cmd": "/venv/bin/python -m compileall -q svmc >/dev/null && ./check --selftest",
    "hooks": {
        "guard": "SUIT_GENERATOR_VERIF",
        "enable": "environment variable SUIT_GENERATOR_VERIF=1 (set by ./check before importing /repo); pure Python, no build step",
        "baseline_off_cmd": "/verif/tools/baseline.py",
        "source_commits": ["cc3415c"],
        "add_only": True,
    },
    "engines": [{"name": "svmc", "path": "/verif/svmc", "serves_properties": [c["property_id"] for c in checks],
                 "kind_free_text": "hand-written explicit-state / deviation-bounded choice-point explorer driving the real implementation, with independent reference models (CBOR, Intel-HEX, SUIT encoder, COSE)"}],
    "checks": checks,
    "notes": "All checks enumerate a stated finite space completely (no sampling); VERIF_SEED only rotates which slice goes through slow secondary paths (CLI subprocess, cmd main with files). Known findings: /verif/KNOWN_FINDINGS.txt.",
    "not_applicable": na,
}
json.dump(m, open(os.path.join(HERE, "MANIFEST.json"), "w"), indent=1)
print(f"manifest: {len(checks)} checks, {len(na)} not claimed")
