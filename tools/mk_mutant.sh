#!/bin/bash
# usage: mk_mutant.sh <name> <file-relative-to-repo> <python-expr: s.replace(...) applied to file text 's'>
# writes /verif/mutants/<name>.diff (a patch against /repo HEAD); does not touch /repo
set -eu
name=$1; file=$2; expr=$3
mkdir -p /verif/mutants
tmp=$(mktemp -d /tmp/svmc-mk-XXXXXX)
trap 'rm -rf "$tmp"' EXIT
mkdir -p "$tmp/a/$(dirname "$file")" "$tmp/b/$(dirname "$file")"
git -C /repo show "HEAD:$file" > "$tmp/a/$file"
/venv/bin/python - "$tmp/a/$file" "$tmp/b/$file" "$expr" <<'PY'
import sys
s = open(sys.argv[1]).read()
t = eval(sys.argv[3], {"s": s})
if t == s:
    print("MUTATION HAD NO EFFECT"); sys.exit(1)
open(sys.argv[2], "w").write(t)
PY
(cd "$tmp" && diff -u "a/$file" "b/$file" > "/verif/mutants/$name.diff" || true)
echo "wrote /verif/mutants/$name.diff ($(grep -c '^[-+][^-+]' /verif/mutants/$name.diff) changed lines)"
