#!/venv/bin/python
"""Evaluate a seeded change produced by a sub-agent.

usage: eval_seeded.py <dir with patch.diff demo.py meta.json> <seed-id> <check ids...>
 1. scratch worktree of /repo HEAD (removed afterwards)
 2. demo passes on the clean tree, fails with the patch
 3. the pinned baseline (509 stable tests) still passes with the patch
 4. runs the given checks (quick tier) against the patched worktree and reports which raise VIOLATION
 5. stores everything under /verif/seeded/<seed-id>/ when 2 and 3 are confirmed
"""
import json, os, shutil, subprocess, sys, tempfile

src, sid, checks = sys.argv[1], sys.argv[2], sys.argv[3:]
tier = os.environ.get("TIER", "quick")
wt = tempfile.mkdtemp(prefix="svmc-seed-", dir="/tmp")
os.rmdir(wt)
subprocess.run(["git", "-C", "/repo", "worktree", "add", "-q", "--detach", wt, "HEAD"], check=True)
res = {"seed": sid, "repo_head": subprocess.run(["git", "-C", "/repo", "rev-parse", "--short", "HEAD"], capture_output=True, text=True).stdout.strip()}
try:
    os.makedirs(os.path.join(wt, "_out", "x"))
    for f in ("demo.py",):
        shutil.copy(os.path.join(src, f), os.path.join(wt, "_out", "x", f))
    env = dict(os.environ, PYTHONDONTWRITEBYTECODE="1")
    env.pop("SUIT_GENERATOR_VERIF", None)

    def demo():
        p = subprocess.run(["/venv/bin/python", "_out/x/demo.py"], cwd=wt, env=env, capture_output=True, text=True, timeout=600)
        return p.returncode, (p.stdout + p.stderr)[-600:]
    rc0, out0 = demo()
    ap = subprocess.run(["git", "-C", wt, "apply", "--whitespace=nowarn", os.path.abspath(os.path.join(src, "patch.diff"))], capture_output=True, text=True)
    if ap.returncode != 0:
        print("PATCH DOES NOT APPLY:", ap.stderr[-400:])
        res["applies"] = False
        sys.exit(3)
    rc1, out1 = demo()
    res["demo_clean_rc"], res["demo_patched_rc"] = rc0, rc1
    res["demo_patched_output"] = out1
    print(f"demo: clean rc={rc0}, patched rc={rc1}")
    if rc0 != 0:
        print("  clean output:", out0)
    b = subprocess.run(["/verif/tools/baseline.py"], env=dict(env, SVMC_REPO=wt), capture_output=True, text=True)
    res["baseline_with_patch"] = b.stdout.strip().splitlines()[0] if b.stdout.strip() else b.stderr[-200:]
    res["baseline_ok"] = b.returncode == 0
    print("baseline with patch:", res["baseline_with_patch"])
    res["checks"] = {}
    for cid in checks:
        p = subprocess.run(["./check", cid, "--tier", tier], cwd="/verif", env=dict(os.environ, SVMC_REPO=wt, SVMC_EVID_DIR=os.path.join(wt, ".evid")),
                           capture_output=True, text=True)
        viol = [l for l in p.stdout.splitlines() if l.startswith("VIOLATION")]
        expl = [l for l in p.stdout.splitlines() if l.startswith("  C")]
        res["checks"][cid] = {"rc": p.returncode, "violations": len(viol), "first": (expl[0][:400] if expl else "")}
        print(f"check {cid} ({tier}): rc={p.returncode} violations={len(viol)} {expl[0][:300] if expl else ''}")
        if p.returncode == 2:
            print("   stderr:", p.stderr[-500:])
    confirmed = rc0 == 0 and rc1 != 0 and res["baseline_ok"]
    res["confirmed"] = confirmed
    if confirmed:
        dst = os.path.join("/verif/seeded", sid)
        os.makedirs(dst, exist_ok=True)
        for f in ("patch.diff", "demo.py", "meta.json"):
            if os.path.exists(os.path.join(src, f)) and os.path.abspath(src) != os.path.abspath(dst):
                shutil.copy(os.path.join(src, f), os.path.join(dst, f))
        meta_p = os.path.join(dst, "meta.json")
        try:
            meta = json.load(open(meta_p))
        except Exception:
            meta = {}
        meta["evaluation"] = res
        meta["what_was_run"] = ("scratch worktree of /repo HEAD; demo.py on clean and patched tree; pinned baseline with the patch "
                                "(tools/baseline.py); ./check <id> --tier %s with SVMC_REPO=<worktree>" % tier)
        json.dump(meta, open(meta_p, "w"), indent=1)
        print("stored in", dst)
    else:
        print("NOT CONFIRMED - not stored")
finally:
    subprocess.run(["git", "-C", "/repo", "worktree", "remove", "--force", wt], capture_output=True)
    shutil.rmtree(wt, ignore_errors=True)
