#!/venv/bin/python
"""Count executions in each G scenario's choice tree per deviation bound (no tool involved)."""
import sys, os
sys.path.insert(0, "/verif")
from svmc import gen
from svmc.core import Chooser

def count(fn, bound, cap=3_000_000):
    n = 0
    stack = [[]]
    while stack:
        p = stack.pop()
        ch = Chooser(p)
        fn(ch, "/x")
        n += 1
        if n > cap:
            return f">{cap}"
        used = sum(1 for c in p if c)
        if bound is not None and used + 1 > bound:
            continue
        for i in range(len(p), len(ch.points)):
            for alt in range(1, ch.points[i][1]):
                stack.append(ch.choices[:i] + [alt])
    return n

names = sys.argv[1:] or list(gen.NODE_SCENARIOS)
for name in names:
    fn = gen.NODE_SCENARIOS[name]
    print(name, {b: count(fn, b, 400000) for b in (1, 2, 3, 4, None)})
