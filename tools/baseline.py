#!/venv/bin/python
"""Run the repository's pinned test suite (guard OFF) and compare with BASELINE.json's stable_pass set.

Exit 0 iff every test of the stable baseline still passes.  Scratch (junit xml, logs) is under a
temporary directory that is removed; nothing is written into /repo except what the suite itself writes.
"""
import json, os, subprocess, sys, tempfile, shutil
import xml.etree.ElementTree as ET


def main():
    base = json.load(open("/root/.vp/BASELINE.json"))
    want = set(base["stable_pass"])
    tmp = tempfile.mkdtemp(prefix="svmc-baseline-")
    try:
        xml = os.path.join(tmp, "r.xml")
        env = dict(os.environ)
        for k in ("SUIT_GENERATOR_VERIF",):
            env.pop(k, None)
        env["PYTHONDONTWRITEBYTECODE"] = "1"
        cmd = ["/venv/bin/python", "-m", "pytest", "-ra", "-q", "-p", "no:cacheprovider", "--timeout=900",
               "--continue-on-collection-errors", f"--junitxml={xml}"]
        p = subprocess.run(cmd, cwd=os.environ.get("SVMC_REPO", "/repo"), env=env, stdout=subprocess.PIPE, stderr=subprocess.STDOUT, text=True)
        passed = set()
        for tc in ET.parse(xml).getroot().iter("testcase"):
            if not any(ch.tag in ("failure", "error", "skipped") for ch in tc):
                passed.add(f"{tc.get('classname')}::{tc.get('name')}")
        missing = sorted(want - passed)
        print(f"baseline: {len(want)} expected, {len(want & passed)} pass, {len(missing)} missing, "
              f"{len(passed - want)} extra passes")
        for m in missing[:40]:
            print("  MISSING", m)
        return 1 if missing else 0
    finally:
        shutil.rmtree(tmp, ignore_errors=True)


if __name__ == "__main__":
    sys.exit(main())
