#!/venv/bin/python
"""Print the prompt for a break-it sub-agent for one property (only the property text and its worktree)."""
import json, sys
pid, wt = sys.argv[1], sys.argv[2]
p = next(json.loads(l) for l in open("/verif/properties.jsonl") if json.loads(l)["id"] == pid)
print(f"""You are helping to evaluate a verification harness by producing realistic, subtle regressions ("seeded defects") in a Python project.

The project is nrfconnect/suit-generator (CLI + library that builds, parses, signs and encrypts SUIT firmware-update envelopes (CBOR/COSE), plus Nordic storage / MPI / DFU-cache hex image generators). You have your own scratch git worktree of it at {wt} . Work ONLY inside that directory. Do NOT read or touch /repo, and do NOT read anything under /verif (it must stay unknown to you). Use /venv/bin/python (the project's dependencies are installed there). When you run Python from inside {wt}, the worktree's copy of the packages is imported (check once with: cd {wt} && /venv/bin/python -c "import suit_generator; print(suit_generator.__file__)").

The property to break (it currently HOLDS in your worktree):

  Title: {p['title']}
  Statement: {p['statement']}
  Quantifier: {p['quantifier']['text']}
  Code anchors: {', '.join(p['anchors']['files'])}

Your task: produce TWO different, independent source changes (different code sites / different mechanisms), each of which
  (a) makes the project violate the property above for some inputs / operation sequences / configurations,
  (b) still imports and runs, and keeps the existing test-suite result unchanged: run  cd {wt} && /venv/bin/python -m pytest -q -p no:cacheprovider --timeout=900 -rf 2>&1 | grep -E "^(FAILED|ERROR)|passed|failed" | sort > _before.txt  BEFORE your change (note: some tests fail already on the clean tree) and the same into _after.txt AFTER it: the two files must be identical (the suite takes about 90 seconds; ignore the wall-clock time in the summary line when comparing),
  (c) is REALISTIC - the kind of slip a maintainer could make in a refactoring or "small improvement" (off-by-one, wrong variable, cached value, reordered statements, wrong branch condition, an optimisation that is wrong for a corner case, state shared between calls, ...), a few lines at most, no comments announcing it,
  (d) needs something SPECIFIC to manifest - a particular boundary value or length, an unusual but legal input, a particular combination of options, a multi-step sequence of operations, a second call in the same process, two cooperating sites - NOT something that ordinary default use would expose at once.  Avoid changes that break every call.

For each change write, under {wt}/_out/<n>/ (n = 1, 2):
  - patch.diff : `git diff` of the change against the worktree's HEAD (only the source change, no tests),
  - demo.py    : a small self-contained program (run as `cd {wt} && /venv/bin/python _out/<n>/demo.py`; IMPORTANT: start demo.py with `import os, sys; sys.path.insert(0, os.getcwd())` so that it imports the packages of the tree it is started in, not the installed copy) that exits 0 on the clean tree and exits non-zero (with a message saying what is wrong) when the change is applied. It must demonstrate the violation through the project's public behaviour (CLI mains / library API / produced files), not by inspecting the source,
  - meta.json  : {{"property": "{pid}", "summary": "...what was changed...", "needs": "...what specific input/sequence/configuration is needed for it to manifest...", "files": [...]}}.
After producing each patch, verify yourself: demo fails with the patch, passes without it (use `git apply -R` or `git checkout -- .`; do NOT use `git stash`, it is shared between all worktrees of the repository), and the test-suite result is unchanged. Leave the worktree CLEAN (no applied change) at the end, with only the _out directory added. Keep everything else (scratch files) inside {wt} and delete them when done.

Finish with a short report: for each change one paragraph (what, where, what it needs to manifest, how you verified).""")
