#!/bin/bash
# run every check of the manifest once (tier from $1, default quick) and print rc / wall time per check
tier=${1:-quick}
cd "$(dirname "$0")/.."
fail=0
for id in C01 C02 C03 C04 C05 C06 C07 C08 C09 C10 C11 C12 C13 C14 C15 C16 C17 C18 C19 C20; do
  s=$(date +%s.%N)
  out=$(./check $id --tier $tier 2>/tmp/run_all_err_$id.txt); rc=$?
  e=$(date +%s.%N)
  v=$(echo "$out" | grep -c '^VIOLATION')
  k=$(echo "$out" | grep -c '^KNOWN-FINDING')
  printf "%s rc=%d violations=%d known=%d %.1fs\n" $id $rc $v $k $(echo "$e - $s" | bc)
  [ $rc -ne 0 ] && { fail=1; echo "$out" | grep -E "^  C|VIOLATION" | head -5; tail -3 /tmp/run_all_err_$id.txt; }
done
exit $fail
