"""svmc core: exhaustive bounded exploration engine (choice-point explorer, explicit-state BFS, case products).

Everything here is deterministic: the set of executions explored by a completed run is a function of
(tier, working tree) only.  VERIF_SEED only permutes which deterministic slice goes through slow secondary
paths (CLI subprocess, hook-off differential); properties implement that by calling seed_slice().
"""
from __future__ import annotations

import hashlib
import itertools
import json
import os
import shutil
import sys
import tempfile
import time
import traceback
from collections import Counter
from contextlib import contextmanager

REPO = os.environ.get("SVMC_REPO", "/repo")
VERIF = os.path.dirname(os.path.dirname(os.path.abspath(__file__)))
WORKERS = int(os.environ.get("SVMC_WORKERS", "16"))

_RUN_SCRATCH = None


def run_scratch() -> str:
    """Root scratch directory of this check run (created once, removed by the runner)."""
    global _RUN_SCRATCH
    if _RUN_SCRATCH is None:
        base = os.environ.get("SVMC_SCRATCH")
        if base is None:
            root = "/dev/shm" if os.path.isdir("/dev/shm") and os.access("/dev/shm", os.W_OK) else None
            base = tempfile.mkdtemp(prefix="svmc-", dir=root)
            os.environ["SVMC_SCRATCH"] = base
            os.environ["SVMC_SCRATCH_OWNER"] = str(os.getpid())
        _RUN_SCRATCH = base
    return _RUN_SCRATCH


def cleanup_scratch():
    if os.environ.get("SVMC_SCRATCH_OWNER") == str(os.getpid()) and _RUN_SCRATCH:
        shutil.rmtree(_RUN_SCRATCH, ignore_errors=True)


_counter = itertools.count()


@contextmanager
def fresh_dir(tag="d"):
    """A private empty directory for one execution; removed afterwards."""
    d = os.path.join(run_scratch(), f"p{os.getpid()}", f"{tag}{next(_counter)}")
    os.makedirs(d)
    try:
        yield d
    finally:
        shutil.rmtree(d, ignore_errors=True)


def h8(*parts) -> int:
    """64-bit key of a case (for distinct counting)."""
    m = hashlib.blake2b(digest_size=8)
    for p in parts:
        if isinstance(p, (bytes, bytearray)):
            m.update(b"b" + len(p).to_bytes(8, "big") + bytes(p))
        else:
            s = (p if isinstance(p, str) else json.dumps(p, sort_keys=True, default=_jd)).encode()
            m.update(b"s" + len(s).to_bytes(8, "big") + s)
    return int.from_bytes(m.digest(), "big")


def _jd(o):
    if isinstance(o, (bytes, bytearray)):
        return {"__hex__": bytes(o).hex()}
    if isinstance(o, (set, frozenset)):
        return sorted(o, key=repr)
    if isinstance(o, tuple):
        return list(o)
    return repr(o)


def jsonable(o):
    return json.loads(json.dumps(o, default=_jd))


def seed() -> int:
    try:
        return int(os.environ.get("VERIF_SEED", "0"))
    except ValueError:
        return 0


def seed_slice(index: int, every: int) -> bool:
    """True for a deterministic 1/every slice of indices, rotated by VERIF_SEED."""
    return every <= 1 or (index + seed()) % every == 0


class HarnessError(Exception):
    """The harness (not the tool) misbehaved; never reported as a property verdict."""


def _weight(case):
    if isinstance(case, dict) and isinstance(case.get("choices"), (list, tuple)):
        return sum(1 for c in case["choices"] if c)
    if isinstance(case, dict) and isinstance(case.get("history"), (list, tuple)):
        return len(case["history"])
    return 0


class Agg:
    """Aggregated outcomes of a set of executions."""

    __slots__ = ("evaluations", "keys", "outcomes", "violations", "samples", "states", "transitions", "traces",
                 "notes", "unavailable", "_ctx")

    def __init__(self):
        self.evaluations = 0
        self.keys = set()
        self.outcomes = Counter()
        self.violations = []   # dicts: fp, explain, case, artefacts, order
        self.samples = []
        self.states = 0
        self.transitions = 0
        self.traces = 0
        self.notes = Counter()
        self.unavailable = Counter()
        self._ctx = None

    # -- recording ---------------------------------------------------------------------------------
    def ok(self, key, cls="ok", nontrivial=True, sample=None):
        self.evaluations += 1
        if nontrivial:
            self.keys.add(key if isinstance(key, int) else h8(key))
        self.outcomes[cls] += 1
        if sample is not None and len(self.samples) < 2:
            self.samples.append(jsonable(sample))

    def rej(self, key, cls="rejected", nontrivial=False, sample=None):
        self.ok(key, cls, nontrivial, sample)

    def viol(self, fp, explain, artefacts=None, case=None):
        self.evaluations += 1
        self.outcomes["VIOLATION:" + fp] += 1
        case = case if case is not None else self._ctx
        w = _weight(case)
        # keep one violation per fingerprint: the one with the fewest deviations, first in enumeration order
        for v in self.violations:
            if v["fp"] == fp:
                v["count"] += 1
                if w < v["weight"]:
                    v.update({"explain": explain, "artefacts": jsonable(artefacts or {}), "case": jsonable(case), "weight": w})
                return
        self.violations.append({"fp": fp, "explain": explain, "artefacts": jsonable(artefacts or {}),
                                "case": jsonable(case), "count": 1, "weight": w})

    def note(self, k, n=1):
        self.notes[k] += n

    def merge(self, other: "Agg", disjoint=False, presized=None):
        self.evaluations += other.evaluations
        if disjoint:
            self.notes["__disjoint_distinct__"] += len(other.keys)
        else:
            self.keys |= other.keys
        self.outcomes.update(other.outcomes)
        for v in other.violations:
            for w in self.violations:
                if w["fp"] == v["fp"]:
                    w["count"] += v["count"]
                    if v["weight"] < w["weight"]:
                        c = w["count"]
                        w.update(v)
                        w["count"] = c
                    break
            else:
                self.violations.append(v)
        for s in other.samples:
            if len(self.samples) < 3:
                self.samples.append(s)
        self.states += other.states
        self.transitions += other.transitions
        self.traces += other.traces
        self.notes.update(other.notes)
        self.unavailable.update(other.unavailable)

    def distinct(self):
        return len(self.keys) + self.notes.get("__disjoint_distinct__", 0)


# ---------------------------------------------------------------------------------------------------
# Stages
# ---------------------------------------------------------------------------------------------------

class Stage:
    kind = "cases"
    replayable = True

    def __init__(self, name, rule=""):
        self.name = name
        self.rule = rule
        self.exhaustive = True
        self.bound = None
        self.wall = 0.0
        self.agg = Agg()

    def run(self, deadline):
        raise NotImplementedError

    def replay(self, case) -> Agg:
        raise NotImplementedError

    def summary(self):
        a = self.agg
        d = {"stage": self.name, "kind": self.kind, "evaluations": a.evaluations, "distinct_nontrivial": a.distinct(),
             "distinct_outcomes": len(a.outcomes), "outcome_classes": dict(a.outcomes.most_common(12)),
             "exhaustive": self.exhaustive, "wall_s": round(self.wall, 2), "rule": self.rule}
        if self.bound is not None:
            d["bound"] = self.bound
        if a.states:
            d["states"] = a.states if self.kind == "bfs" else min(a.states, a.distinct())
            d["transitions"] = a.transitions
            d["traces_validated_against_impl"] = a.traces
        if a.unavailable:
            d["unavailable"] = dict(a.unavailable)
        extra = {k: v for k, v in a.notes.items() if not k.startswith("__")}
        if extra:
            d["notes"] = extra
        return d


_STAGE = None  # the stage being executed; inherited by forked workers


def _guarded(fn, case, agg):
    agg._ctx = case
    try:
        fn(case, agg)
    except HarnessError:
        raise
    except Exception as e:  # a harness bug must never become a verdict
        raise HarnessError(f"harness exception in stage {_STAGE.name if _STAGE else '?'} case={case!r}: "
                           f"{type(e).__name__}: {e}\n{traceback.format_exc()}")


def _worker_chunk(arg):
    idx, chunk = arg
    agg = Agg()
    t0 = time.time()
    for case in chunk:
        _guarded(_STAGE.fn, case, agg)
        if _STAGE._deadline and time.time() > _STAGE._deadline:
            agg.note("__cap__")
            break
    return idx, agg


def _parallel(func, tasks):
    """run func over tasks in forked workers (svmc.pool: no helper threads, dead/hung workers are replaced)."""
    from . import pool

    def on_exc(name, text, tb):
        if name in ("HarnessError", "ReplayDivergence"):
            raise HarnessError(text)
        raise HarnessError(f"worker raised {name}: {text}\n{tb}")
    try:
        return pool.run(func, tasks, workers=WORKERS, stall_s=STALL_S, on_exception=on_exc)
    except pool.PoolError as e:
        raise HarnessError(f"worker pool: {e}")


STALL_S = float(os.environ.get("SVMC_STALL_S", "1200"))      # a single task (chunk / sub-tree) never legitimately takes this long


class CaseStage(Stage):
    """Run fn(case, agg) for every case of a finite, explicitly enumerated list."""

    kind = "cases"

    def __init__(self, name, cases, fn, rule="", chunk=None, disjoint=False, serial=False):
        super().__init__(name, rule)
        self._cases = cases
        self.fn = fn
        self.chunk = chunk
        self.disjoint = disjoint
        self.serial = serial
        self._deadline = None

    def cases(self):
        c = self._cases() if callable(self._cases) else self._cases
        return c if isinstance(c, list) else list(c)

    def run(self, deadline):
        global _STAGE
        t0 = time.time()
        self._deadline = deadline
        cases = self.cases()
        n = len(cases)
        if n == 0:
            return
        chunk = self.chunk or max(1, min(2000, n // (WORKERS * 8) or 1))
        chunks = [(i, cases[i:i + chunk]) for i in range(0, n, chunk)]
        _STAGE = self
        results = []
        if self.serial or WORKERS <= 1 or n < 4:
            for c in chunks:
                results.append(_worker_chunk(c))
        else:
            results = _parallel(_worker_chunk, chunks)
        results.sort(key=lambda r: r[0])
        for _, agg in results:
            self.agg.merge(agg, disjoint=self.disjoint)
        if self.agg.notes.pop("__cap__", 0):
            self.exhaustive = False
        self.wall = time.time() - t0

    def replay(self, case):
        global _STAGE
        _STAGE = self
        agg = Agg()
        _guarded(self.fn, case, agg)
        return agg


# -- choice-point explorer -------------------------------------------------------------------------

class ReplayDivergence(HarnessError):
    pass


class Chooser:
    """Choice points of one execution. Option 0 is the default answer."""

    def __init__(self, prefix=()):
        self.prefix = list(prefix)
        self.choices = []
        self.points = []  # (label, n)

    def choose(self, label, options):
        n = len(options)
        if n == 0:
            raise HarnessError(f"empty option list at {label}")
        i = len(self.choices)
        if i < len(self.prefix):
            c = self.prefix[i]
            if c >= n:
                raise ReplayDivergence(f"choice {c} out of range {n} at point {i} ({label}); prefix={self.prefix}")
        else:
            c = 0
        self.choices.append(c)
        self.points.append((label, n))
        return options[c]

    def flag(self, label):
        return self.choose(label, (False, True))

    def labels(self):
        return [f"{l}={c}/{n}" for (l, n), c in zip(self.points, self.choices) if c]


def _explore_subtree(stage, prefix, agg, bound, deadline):
    """Run `prefix` then recurse into every extension within the deviation bound."""
    ch = Chooser(prefix)
    agg._ctx = {"choices": list(prefix)}
    try:
        stage.scenario(ch, agg)
    except HarnessError:
        raise
    except Exception as e:
        raise HarnessError(f"harness exception in explore stage {stage.name} prefix={prefix}: "
                           f"{type(e).__name__}: {e}\n{traceback.format_exc()}")
    if len(ch.choices) < len(prefix):
        raise ReplayDivergence(f"execution consumed {len(ch.choices)} choices, prefix has {len(prefix)}: {prefix}")
    used = sum(1 for c in prefix if c)
    if bound is not None and used + 1 > bound:
        return
    for i in range(len(prefix), len(ch.points)):
        for alt in range(1, ch.points[i][1]):
            if deadline and time.time() > deadline:
                agg.note("__cap__")
                return
            _explore_subtree(stage, ch.choices[:i] + [alt], agg, bound, deadline)


def _children(stage, prefix, agg, bound):
    ch = Chooser(prefix)
    agg._ctx = {"choices": list(prefix)}
    stage.scenario(ch, agg)
    used = sum(1 for c in prefix if c)
    out = []
    if bound is None or used + 1 <= bound:
        for i in range(len(prefix), len(ch.points)):
            for alt in range(1, ch.points[i][1]):
                out.append(ch.choices[:i] + [alt])
    return out


def _worker_subtree(arg):
    idx, prefix = arg
    agg = Agg()
    _explore_subtree(_STAGE, prefix, agg, _STAGE.bound, _STAGE._deadline)
    return idx, agg


class ExploreStage(Stage):
    """Deviation-bounded exhaustive exploration of scenario(ch, agg)'s choice tree (bound=None: full product)."""

    kind = "explore"

    def __init__(self, name, scenario, bound=None, rule="", target_tasks=None):
        super().__init__(name, rule)
        self.scenario = scenario
        self.bound = bound
        self.target_tasks = target_tasks or WORKERS * 24
        self._deadline = None

    def run(self, deadline):
        global _STAGE
        t0 = time.time()
        self._deadline = deadline
        _STAGE = self
        queue = [[]]
        done = 0
        # master-side expansion until there are enough subtree tasks
        while queue and len(queue) < self.target_tasks and done < 64:
            p = queue.pop(0)
            try:
                kids = _children(self, p, self.agg, self.bound)
            except HarnessError:
                raise
            except Exception as e:
                raise HarnessError(f"harness exception in explore stage {self.name} prefix={p}: "
                                   f"{type(e).__name__}: {e}\n{traceback.format_exc()}")
            queue.extend(kids)
            done += 1
        tasks = list(enumerate(queue))
        results = []
        if tasks:
            if WORKERS <= 1 or len(tasks) < 4:
                results = [_worker_subtree(t) for t in tasks]
            else:
                results = _parallel(_worker_subtree, tasks)
        results.sort(key=lambda r: r[0])
        for _, agg in results:
            self.agg.merge(agg)
        if self.agg.notes.pop("__cap__", 0):
            self.exhaustive = False
        self.wall = time.time() - t0

    def replay(self, case):
        global _STAGE
        _STAGE = self
        agg = Agg()
        ch = Chooser(case["choices"])
        agg._ctx = {"choices": list(case["choices"])}
        self.scenario(ch, agg)
        agg.note("labels:" + ";".join(ch.labels()))
        return agg


# -- explicit-state BFS ----------------------------------------------------------------------------

def _worker_bfs(arg):
    idx, states, expand = arg
    agg = Agg()
    out = []
    for st in states:
        agg._ctx = {"history": st}
        try:
            succ = _STAGE.step(st, agg, expand) or []
        except HarnessError:
            raise
        except Exception as e:
            raise HarnessError(f"harness exception in bfs stage {_STAGE.name} state={st!r}: "
                               f"{type(e).__name__}: {e}\n{traceback.format_exc()}")
        out.append((st, succ))
    return idx, agg, out


class BfsStage(Stage):
    """Level-synchronous explicit-state search.

    A state is the operation history that reaches it (a JSON-able tuple).  step(history, agg, expand) executes the
    real implementation on that history, evaluates the invariants (recording into agg) and, when expand is true,
    returns the list of (label, next_history, canonical_key) successors.  canonical_key None means terminal/duplicate-free.
    States are deduplicated by canonical key.
    """

    kind = "bfs"

    def __init__(self, name, init, step, max_depth, rule="", dedupe=True):
        super().__init__(name, rule)
        self.init = init
        self.step = step
        self.max_depth = max_depth
        self.bound = max_depth
        self.dedupe = dedupe
        self._deadline = None

    def run(self, deadline):
        global _STAGE
        t0 = time.time()
        _STAGE = self
        self._deadline = deadline
        init = self.init() if callable(self.init) else self.init
        seen = set()
        frontier = []
        for st, key in init:
            if not self.dedupe or key not in seen:
                seen.add(key)
                frontier.append(st)
        states = len(frontier)
        transitions = 0
        depth = 0
        completed = 0
        while frontier and depth <= self.max_depth:
            if deadline and time.time() > deadline:
                self.exhaustive = False
                break
            n = len(frontier)
            chunk = max(1, n // (WORKERS * 4))
            expand = depth < self.max_depth
            chunks = [(i, frontier[i:i + chunk], expand) for i in range(0, n, chunk)]
            if WORKERS <= 1 or n < 4:
                results = [_worker_bfs(c) for c in chunks]
            else:
                results = _parallel(_worker_bfs, chunks)
            results.sort(key=lambda r: r[0])
            nxt = []
            for _, agg, out in results:
                self.agg.merge(agg)
                for st, succ in out:
                    for label, st2, key in succ:
                        transitions += 1
                        if self.dedupe and key is not None:
                            if key in seen:
                                continue
                            seen.add(key)
                        states += 1
                        nxt.append(st2)
            completed = depth
            frontier = nxt
            depth += 1
        self.agg.states += states
        self.agg.transitions += transitions
        self.agg.traces += self.agg.evaluations
        self.bound = completed
        self.wall = time.time() - t0

    def replay(self, case):
        global _STAGE
        _STAGE = self
        agg = Agg()
        agg._ctx = case
        self.step(tuplify(case["history"]), agg, False)
        return agg


def tuplify(o):
    if isinstance(o, list):
        return tuple(tuplify(x) for x in o)
    return o
