"""UUIDv5 straight from hashlib.sha1 (RFC 4122 section 4.3); imports nothing from the tool or the uuid module."""
import hashlib

NAMESPACE_DNS = bytes.fromhex("6ba7b8109dad11d180b400c04fd430c8")


def uuid5(ns: bytes, name: str) -> bytes:
    h = bytearray(hashlib.sha1(ns + name.encode("utf-8")).digest()[:16])
    h[6] = (h[6] & 0x0F) | 0x50
    h[8] = (h[8] & 0x3F) | 0x80
    return bytes(h)


def vid(vendor: str) -> bytes:
    return uuid5(NAMESPACE_DNS, vendor)


def cid(vendor: str, cls: str) -> bytes:
    return uuid5(vid(vendor), cls)
