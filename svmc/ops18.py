"""Operations for C18 (history independence).  Runs inside a fresh interpreter as a driver:

    python -m svmc.ops18 <inputs dir> <work dir> <op name> [<op name> ...]

executes the operations in ONE interpreter, in order, and writes the canonical output of the i-th operation to
<work dir>/result_<i>.bin.  The harness compares the result of the last operation with that operation's result in a
fresh interpreter of its own.
"""
from __future__ import annotations

import copy
import hashlib
import json
import os
import sys


def _repo():
    return os.environ.get("SVMC_REPO", "/repo")


# ---------------------------------------------------------------------------------------------------
# inputs (prepared once per check run by prepare())
# ---------------------------------------------------------------------------------------------------

def descriptions(inp):
    from . import gen
    fw = os.path.join(inp, "fw.bin")
    child2 = gen.child_env(seq=31, extra={"suit-integrated-payloads": {"#leaf": "0a0b"}})
    child1 = gen.child_env(seq=21, extra={"suit-integrated-dependencies": {"#grand": copy.deepcopy(child2)}})
    child1["SUIT_Envelope_Tagged"]["suit-manifest"]["suit-install"] = [{"suit-directive-override-parameters": {
        "suit-parameter-image-digest": gen.digest("cose-alg-sha-384", {"envelope": copy.deepcopy(child2)})}}]
    b0 = gen.minimal()
    b1 = gen.minimal(man={
        "suit-manifest-component-id": ["INSTLD_MFST", {"RFC4122_UUID": {"namespace": "nordicsemi.com", "name": "nRF54H20_sample_app"}}],
        "suit-common": {"suit-components": [["M", 2, 235577344, 352256]], "suit-shared-sequence": [{"suit-directive-override-parameters": {
            "suit-parameter-vendor-identifier": {"RFC4122_UUID": "nordicsemi.com"},
            "suit-parameter-class-identifier": {"RFC4122_UUID": {"namespace": "nordicsemi.com", "name": "nRF54H20_sample_app"}},
            "suit-parameter-image-digest": gen.digest("cose-alg-sha-256", {"file": fw}),
            "suit-parameter-image-size": {"file": fw}}}]},
        "suit-validate": [{"suit-condition-image-match": list(gen.BITS)}],
        "suit-install": gen.digest("cose-alg-sha-256"), "suit-text": gen.digest("cose-alg-sha-256", "")},
        env={"suit-install": [{"suit-directive-override-parameters": {"suit-parameter-uri": "#fw"}}, {"suit-directive-fetch": [gen.BITS[1]]}],
             "suit-text": {"en": {'["M", 2, 235577344, 352256]': {"suit-text-vendor-name": "Nordic", "suit-text-model-name": "m"}}},
             "suit-integrated-payloads": {"#fw": fw}})
    b2 = gen.minimal(man=copy.deepcopy(gen.MAN_DEFAULTS), alg="cose-alg-sha-512")
    b2["SUIT_Envelope_Tagged"]["suit-manifest"]["suit-reference-uri"] = "http://example.com/\U0001D11E/zażółć/\u20ac?q=\U0001F600"     # beyond the BMP
    b2["SUIT_Envelope_Tagged"]["suit-manifest"]["suit-validate"] = [{"suit-directive-override-parameters": copy.deepcopy(gen.PARAM_DEFAULTS)},
                                                                    {"suit-directive-try-each": [[{"suit-condition-abort": []}], []]}]
    b2["SUIT_Envelope_Tagged"]["suit-authentication-wrapper"]["SuitAuthentication0"] = {"CoseSign1Tagged": {
        "protected": {"suit-cose-algorithm-id": "cose-alg-es-256", "suit-cose-key-id": 5}, "unprotected": {}, "payload": None, "signature": "ab" * 64}}
    for i, nm in enumerate(("SuitAuthentication1", "SuitAuthenticationBackup", "SuitAuthentication10")):
        b2["SUIT_Envelope_Tagged"]["suit-authentication-wrapper"][nm] = {"CoseSign1Tagged": {
            "protected": {"suit-cose-algorithm-id": gen.SIGALGS[i + 1], "suit-cose-key-id": 100 + i}, "unprotected": {}, "payload": None, "signature": gen.hexs(64, i)}}
    b3 = gen.minimal(man={
        "suit-manifest-component-id": ["INSTLD_MFST", {"RFC4122_UUID": {"namespace": "nordicsemi.com", "name": "nRF54H20_sample_root"}}],
        "suit-install": [{"suit-directive-override-parameters": {"suit-parameter-uri": "#c1",
                                                                 "suit-parameter-image-digest": gen.digest("cose-alg-sha-256", {"envelope": copy.deepcopy(child1)})}},
                         {"suit-directive-override-parameters": {"suit-parameter-uri": "#c2",
                                                                 "suit-parameter-image-digest": gen.digest("cose-alg-sha-512", {"envelope": os.path.join(inp, "child2.suit")})}}]},
        env={"suit-integrated-dependencies": {"#c1": child1, "#c2": os.path.join(inp, "child2.suit")}})
    # B1alt: the same shape, names and URIs as B1, but every referenced file is another one (a cache keyed by payload
    # name, URI or description shape instead of content would serve B1's values)
    b1alt = json.loads(json.dumps(b1).replace(json.dumps(fw)[1:-1], json.dumps(os.path.join(inp, "other.bin"))[1:-1]))
    # B1v: B1 under ANOTHER vendor, every class / component name unchanged (anything remembered per name alone would be B1's)
    b1v = json.loads(json.dumps(b1).replace("nordicsemi.com", "acme-devices.example"))
    # B3alt: another hierarchy whose dependencies have OTHER names (state kept from an earlier hierarchical parse would show)
    radio = gen.child_env(seq=41, extra={"suit-integrated-payloads": {"#radio.bin": "0c0d"}})
    b3alt = gen.minimal(env={"suit-integrated-dependencies": {"#radio.suit": radio, "#app.suit": gen.child_env(seq=42)}})
    # B9: an application envelope of the OTHER SoC's default class (storage generation for two SoCs in one process)
    b9 = gen.minimal(man={
        "suit-manifest-component-id": ["INSTLD_MFST", {"RFC4122_UUID": {"namespace": "nordicsemi.com", "name": "nRF9280_sample_app"}}],
        "suit-install": [{"suit-directive-override-parameters": {"suit-parameter-uri": "#fw"}}]},
        env={"suit-integrated-payloads": {"#fw": "C0FFEE"}})
    # H1..H3: three hierarchies of ONE shape whose in-place dependency descriptions differ in content only (anything
    # remembered about "the dependency at this place" from an earlier creation would be another one's)
    hs = {}
    for k in (1, 2, 3):
        leaf = gen.child_env(seq=50 + k, extra={"suit-integrated-payloads": {"#leaf": "%02x" % k * (3 + k)}})
        mid = gen.child_env(seq=60 + k, extra={"suit-integrated-dependencies": {"#leaf.suit": leaf}, "suit-integrated-payloads": {"#m": "%02x" % (16 * k)}})
        hs[f"H{k}"] = gen.minimal(man={"suit-manifest-sequence-number": 70 + k, "suit-install": [{"suit-directive-override-parameters": {
            "suit-parameter-uri": "#mid.suit", "suit-parameter-image-digest": gen.digest("cose-alg-sha-256", {"envelope": copy.deepcopy(mid)}),
            "suit-parameter-image-size": {"envelope": copy.deepcopy(mid)}}}]},
            env={"suit-integrated-dependencies": {"#mid.suit": mid, "#other.suit": gen.child_env(seq=80 + k)}})
    # P7: dependencies AND seven payloads on one level (extraction order = envelope order, whatever the string hashes are)
    p7 = gen.minimal(env={"suit-integrated-dependencies": {"#radio.suit": copy.deepcopy(radio)},
                          "suit-integrated-payloads": {f"#img_{c}.bin": ("%02x" % (i + 1)) * (i + 2) for i, c in enumerate("gcafbed")}})
    return {"B0": b0, "B1": b1, "B2": b2, "B3": b3, "B1alt": b1alt, "B3alt": b3alt, "B9": b9, "child2": child2, "P7": p7, "B1v": b1v, **hs}


def prepare(inp):
    """create all input files (descriptions as JSON and YAML, binaries, envelopes, caches, MPI records, keys)."""
    import yaml
    from . import keys as vkeys
    from .refhex import write_hex
    os.makedirs(inp, exist_ok=True)
    with open(os.path.join(inp, "fw.bin"), "wb") as fh:
        fh.write(bytes((i * 7 + 1) % 256 for i in range(1000)))
    with open(os.path.join(inp, "other.bin"), "wb") as fh:
        fh.write(b"\x42" * 77)
    ds = descriptions(inp)
    from suit_generator.input_output import InputOutputMixin
    with open(os.path.join(inp, "child2.suit"), "wb") as fh:
        fh.write(InputOutputMixin.prepare_suit_data(copy.deepcopy(ds["child2"])))
    for n in ("B0", "B1", "B2", "B3", "B1alt", "B3alt", "B9", "P7", "H1", "H2", "H3", "B1v"):
        with open(os.path.join(inp, f"{n}.json"), "w", encoding="utf-8") as fh:
            json.dump(ds[n], fh)
        with open(os.path.join(inp, f"{n}.yaml"), "w", encoding="utf-8") as fh:
            yaml.safe_dump(ds[n], fh, sort_keys=False)
        with open(os.path.join(inp, f"{n}.suit"), "wb") as fh:
            fh.write(InputOutputMixin.prepare_suit_data(copy.deepcopy(ds[n])))
    # keys
    kd = os.path.join(inp, "keys")
    os.makedirs(kd, exist_ok=True)
    for n in ("ed25519", "p256"):
        with open(os.path.join(kd, n + ".pem"), "wb") as fh:
            fh.write(vkeys.pem(n))
    with open(os.path.join(kd, "aes.bin"), "wb") as fh:
        fh.write(vkeys.aes_key("aes"))
    # MPI records for merge
    write_hex([(0x1000, bytes(range(1, 49)))], os.path.join(inp, "mpi_a.hex"))
    write_hex([(0x1000 + 96, bytes(range(50, 98)))], os.path.join(inp, "mpi_b.hex"))
    # caches for merge
    from suit_generator import cmd_cache_create
    for name, uri, f in (("cache_a.bin", "file://a", "fw.bin"), ("cache_b.bin", "file://b", "other.bin")):
        cmd_cache_create.main(cache_create_subcommand="from_payloads", output_file=os.path.join(inp, name), eb_size=16,
                              input=[f"{uri},{os.path.join(inp, f)}"])
    with open(os.path.join(inp, "app.config"), "w") as fh:
        fh.write('SB_CONFIG_SUIT_MPI_APP_LOCAL_2_VENDOR_NAME="v.example"\nSB_CONFIG_SUIT_MPI_APP_LOCAL_2_CLASS_NAME="c2"\n')


# ---------------------------------------------------------------------------------------------------
# operations: name -> function(inp, work) -> dict of canonical outputs
# ---------------------------------------------------------------------------------------------------

def _files(d, names=None):
    out = {}
    for root, _, fs in os.walk(d):
        for f in sorted(fs):
            p = os.path.join(root, f)
            out[os.path.relpath(p, d)] = open(p, "rb").read()
    return out


def op_create(name, fmt):
    def f(inp, work):
        from suit_generator import cmd_create
        o = os.path.join(work, "o.suit")
        cmd_create.main(input_file=os.path.join(inp, f"{name}.{fmt}"), input_format="AUTO", output_file=o)
        return {"suit": open(o, "rb").read()}
    return f


def op_create_twice(inp, work):
    from suit_generator.envelope import SuitEnvelope
    e = SuitEnvelope()
    e.load(os.path.join(inp, "B1.yaml"), "yaml")
    a, b = os.path.join(work, "a.suit"), os.path.join(work, "b.suit")
    e.dump(a, "suit")
    e.dump(b, "suit")
    return {"first": open(a, "rb").read(), "second": open(b, "rb").read()}


def op_parse(fmt, hier, which="B3"):
    def f(inp, work):
        from suit_generator import cmd_parse
        o = os.path.join(work, f"p.{fmt}")
        cmd_parse.main(input_file=os.path.join(inp, f"{which}.suit"), output_file=o, output_format="AUTO", parse_hierarchy=hier)
        return {"text": open(o, "rb").read()}
    return f


def op_boot(which):
    def f(inp, work):
        from suit_generator import cmd_image
        od = os.path.join(work, "boot")
        os.makedirs(od, exist_ok=True)
        files = [os.path.join(inp, "B3.suit"), os.path.join(inp, "B1.suit")] if which == 1 else [os.path.join(inp, "B1.suit")]
        cmd_image.ImageCreator.create_files_for_boot(files, od, 0x0E1ED000 if which == 1 else 0x1000, os.path.join(inp, "app.config"),
                                                     "nrf54h20" if which == 1 else "nrf54h20")
        return _files(od)
    return f


def op_boot_9280(inp, work):
    from suit_generator import cmd_image
    od = os.path.join(work, "boot9280")
    os.makedirs(od, exist_ok=True)
    cmd_image.ImageCreator.create_files_for_boot([os.path.join(inp, "B9.suit")], od, 0x0E1ED000, None, "nrf9280")
    return _files(od)


def op_update(inp, work):
    from suit_generator import cmd_image
    s, d = os.path.join(work, "s.hex"), os.path.join(work, "d.hex")
    cmd_image.main(image="update", input_file=os.path.join(inp, "B1.suit"), storage_output_file=s, dfu_partition_output_file=d,
                   update_candidate_info_address=0x0E1EF340, dfu_partition_address=0x0E100000, dfu_max_caches=3)
    return {"s": open(s, "rb").read(), "d": open(d, "rb").read()}


def op_mpi_generate(inp, work):
    from suit_generator import cmd_mpi
    o = os.path.join(work, "m.hex")
    cmd_mpi.main(mpi="generate", output_file=o, vendor_name="nordicsemi.com", class_name="nRF54H20_sample_root", address=0x1000, size=64,
                 downgrade_prevention_enabled=True, independent_updates=False, signature_verification="update")
    return {"hex": open(o, "rb").read()}


def op_mpi_merge(inp, work):
    from suit_generator import cmd_mpi
    o = os.path.join(work, "mm.hex")
    cmd_mpi.main(mpi="merge", output_file=o, address=0x1000, size=192, file=[os.path.join(inp, "mpi_a.hex"), os.path.join(inp, "mpi_b.hex")])
    return {"hex": open(o, "rb").read()}


def op_cache_payloads(inp, work):
    from suit_generator import cmd_cache_create
    o = os.path.join(work, "c.bin")
    cmd_cache_create.main(cache_create_subcommand="from_payloads", output_file=o, eb_size=32,
                          input=[f"file://x,{os.path.join(inp, 'fw.bin')}", f"file://y,{os.path.join(inp, 'other.bin')}"])
    return {"cache": open(o, "rb").read()}


def op_cache_envelope(inp, work):
    from suit_generator import cmd_cache_create
    o, e = os.path.join(work, "ce.bin"), os.path.join(work, "ce.suit")
    cmd_cache_create.main(cache_create_subcommand="from_envelope", output_file=o, eb_size=16, input_envelope=os.path.join(inp, "B3.suit"),
                          output_envelope=e, omit_payload_regex=None, dependency_regex="#c1|#grand")
    return {"cache": open(o, "rb").read(), "env": open(e, "rb").read()}


def op_cache_envelope_many(inp, work):
    from suit_generator import cmd_cache_create
    o, e = os.path.join(work, "cm.bin"), os.path.join(work, "cm.suit")
    cmd_cache_create.main(cache_create_subcommand="from_envelope", output_file=o, eb_size=8, input_envelope=os.path.join(inp, "P7.suit"),
                          output_envelope=e, omit_payload_regex=None, dependency_regex=".*[.]suit")
    return {"cache": open(o, "rb").read(), "env": open(e, "rb").read()}


def op_cache_merge(inp, work):
    from suit_generator import cmd_cache_create
    o = os.path.join(work, "cm.bin")
    cmd_cache_create.main(cache_create_subcommand="merge", output_file=o, eb_size=8, input=[os.path.join(inp, "cache_a.bin"), os.path.join(inp, "cache_b.bin")])
    return {"cache": open(o, "rb").read()}


def _sign(inp, work, alg, key):
    from suit_generator import cmd_sign
    from suit_generator.suit_sign_script_base import SuitSignAlgorithms, SignatureAlreadyPresentActions
    o = os.path.join(work, f"signed_{key}.suit")
    cmd_sign.main(sign_subcommand="single-level", input_envelope=os.path.join(inp, "B1.suit"), output_envelope=o, key_name=key, key_id=9,
                  alg=SuitSignAlgorithms(alg), context=os.path.join(inp, "keys"), sign_script=os.path.join(_repo(), "ncs", "sign_script.py"),
                  kms_script=os.path.join(_repo(), "ncs", "basic_kms.py"), already_signed_action=SignatureAlreadyPresentActions("error"))
    return open(o, "rb").read()


def op_sign_ed(inp, work):
    return {"suit": _sign(inp, work, "eddsa", "ed25519")}


def op_sign_es(inp, work):
    """everything but the signature bytes (randomised)"""
    from . import refcbor
    b = _sign(inp, work, "es-256", "p256")
    top = refcbor.decode(b)
    env = top.items[0]
    a = env.get(2)
    arr = refcbor.decode(a.value)
    blk = refcbor.decode(arr.items[-1].value)
    sig = blk.items[0].items[3]
    inner = arr.items[-1].value
    masked_block = inner[:sig.start + sig.head] + b"\x00" * len(sig.value) + inner[sig.end:]
    masked = b.replace(inner, masked_block)
    return {"suit-without-signature": masked, "siglen": str(len(sig.value)).encode()}


def op_encrypt(inp, work):
    """everything but IV / ciphertext / tag"""
    from suit_generator import cmd_encrypt
    from . import refcbor
    od = os.path.join(work, "enc")
    os.makedirs(od, exist_ok=True)
    cmd_encrypt.main(encrypt_subcommand="encrypt-and-generate", firmware=os.path.join(inp, "fw.bin"), key_name="aes", key_id=0x7FFFFFE0,
                     context=os.path.join(inp, "keys"), output_dir=od, hash_alg="sha-256", kw_alg="direct",
                     kms_script=os.path.join(_repo(), "ncs", "basic_kms.py"), encrypt_script=os.path.join(_repo(), "ncs", "encrypt_script.py"))
    f = _files(od)
    info = f.pop("suit_encryption_info.bin")
    content = f.pop("encrypted_content.bin")
    t = refcbor.decode(refcbor.decode(info).value)
    iv = t.items[0].items[1].get(5)
    f["info-without-iv"] = info.replace(iv.value, b"\x00" * len(iv.value))
    f["content-length"] = str(len(content)).encode()
    return f


OPS = {}
for _n in ("B0", "B1", "B2", "B3"):
    for _f in ("json", "yaml"):
        OPS[f"create-{_n}-{_f}"] = op_create(_n, _f)
OPS["create-B1alt-json"] = op_create("B1alt", "json")


def op_create_shared(content):
    """the SAME path with different content at different times (a cache keyed by path would serve stale bytes)"""
    def f(inp, work):
        from suit_generator import cmd_create
        from . import gen
        shared = os.path.join(os.path.dirname(work), "shared.bin")
        with open(shared, "wb") as fh:
            fh.write(content)
        d = gen.in_params({"suit-parameter-image-digest": gen.digest("cose-alg-sha-256", {"file": shared}), "suit-parameter-image-size": {"file": shared}})
        d["SUIT_Envelope_Tagged"]["suit-integrated-payloads"] = {"#s": shared}
        i, o = os.path.join(work, "i.json"), os.path.join(work, "o.suit")
        with open(i, "w") as fh:
            json.dump(d, fh)
        cmd_create.main(input_file=i, input_format="AUTO", output_file=o)
        return {"suit-without-paths": open(o, "rb").read()}
    return f


OPS["create-shared-path-1"] = op_create_shared(b"first content " * 10)
OPS["create-shared-path-2"] = op_create_shared(b"second, longer content " * 20)
OPS["create-twice"] = op_create_twice
for _f in ("yaml", "json"):
    for _h in (False, True):
        OPS[f"parse-{_f}{'-hier' if _h else ''}"] = op_parse(_f, _h)
OPS["parse-yaml-hier-alt"] = op_parse("yaml", True, "B3alt")
OPS["parse-json-hier-alt"] = op_parse("json", True, "B3alt")
OPS["parse-B2-yaml"] = op_parse("yaml", False, "B2")
OPS["boot-1"] = op_boot(1)
OPS["boot-2"] = op_boot(2)
OPS["boot-nrf9280"] = op_boot_9280
OPS["create-B9-yaml"] = op_create("B9", "yaml")
OPS["update"] = op_update
OPS["mpi-generate"] = op_mpi_generate
OPS["mpi-merge"] = op_mpi_merge
OPS["cache-payloads"] = op_cache_payloads
OPS["cache-envelope"] = op_cache_envelope
OPS["cache-merge"] = op_cache_merge
OPS["cache-envelope-many"] = op_cache_envelope_many
for _k in (1, 2, 3):
    OPS[f"create-H{_k}-json"] = op_create(f"H{_k}", "json")
OPS["create-B3alt-yaml"] = op_create("B3alt", "yaml")
OPS["create-B1v-yaml"] = op_create("B1v", "yaml")
OPS["sign-ed25519"] = op_sign_ed
OPS["sign-es256"] = op_sign_es
OPS["encrypt"] = op_encrypt
CLASS_TABLE_OPS = ["create-B2-json", "create-B3-yaml", "parse-yaml-hier", "parse-json", "create-twice", "boot-1", "cache-envelope", "sign-ed25519"]


def canonical(res: dict) -> bytes:
    return b"".join(k.encode() + b"\x00" + len(v).to_bytes(8, "big") + v for k, v in sorted(res.items()))


def main(argv):
    inp, work, ops = argv[0], argv[1], argv[2:]
    import logging
    logging.disable(logging.CRITICAL)
    os.makedirs(work, exist_ok=True)
    for i, name in enumerate(ops):
        w = os.path.join(work, f"w{i}")
        os.makedirs(w, exist_ok=True)
        try:
            res = canonical(OPS[name](inp, w))
        except BaseException as e:      # noqa
            res = f"EXCEPTION {type(e).__name__}: {e}".encode()
        with open(os.path.join(work, f"result_{i}.bin"), "wb") as fh:
            fh.write(res)
    return 0


if __name__ == "__main__":
    sys.exit(main(sys.argv[1:]))
