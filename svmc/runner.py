"""Runner: executes a property's stages, writes evidence, handles known findings and replay files."""
from __future__ import annotations

import importlib
import json
import os
import re
import subprocess
import sys
import time

from . import core

KNOWN_FILE = os.path.join(core.VERIF, "KNOWN_FINDINGS.txt")
EVID_DIR = os.environ.get("SVMC_EVID_DIR") or os.path.join(core.VERIF, "evidence")
REPLAY_DIR = os.path.join(os.environ["SVMC_EVID_DIR"], "replays") if os.environ.get("SVMC_EVID_DIR") else os.path.join(core.VERIF, "replays")
ALL = [f"C{i:02d}" for i in range(1, 21)]

CAPS = {"quick": 15 * 60, "thorough": 3 * 3600}


def load_known(pid):
    known = {}
    if os.path.exists(KNOWN_FILE):
        for line in open(KNOWN_FILE, encoding="utf-8"):
            line = line.strip()
            m = re.match(r"known:\s+property=(\S+)\s+key=(\S+)\s+(.*)$", line)
            if m and m.group(1) == pid:
                known[m.group(2)] = m.group(3)
    return known


def repo_head():
    try:
        h = subprocess.run(["git", "-C", core.REPO, "rev-parse", "--short", "HEAD"], capture_output=True, text=True, timeout=60).stdout.strip()
        d = subprocess.run(["git", "-C", core.REPO, "status", "--porcelain", "--untracked-files=no"], capture_output=True, text=True, timeout=60).stdout.strip()
        return h, bool(d)
    except Exception:
        return "?", False


def slug(fp):
    return re.sub(r"[^A-Za-z0-9_.-]+", "_", fp)[:120]


def module_for(pid):
    return importlib.import_module(f"svmc.props.{pid.lower()}")


def run_replay(pid, path):
    data = json.load(open(path))
    mod = module_for(pid)
    tier = data.get("tier", "quick")
    stages = mod.plan(tier)
    for st in stages:
        if st.name == data["stage"]:
            agg = st.replay(data["case"])
            if agg.violations:
                for v in agg.violations:
                    print(f"replay: violation {v['fp']}\n{v['explain']}")
                    if v["artefacts"]:
                        print(json.dumps(v["artefacts"], indent=1)[:4000])
                print(f"VIOLATION property={pid} replay={path}")
                return 1
            print(f"replay: property held on this case (outcomes={dict(agg.outcomes)})")
            return 0
    print(f"replay: stage {data['stage']} not found in plan for {pid}", file=sys.stderr)
    return 2


def run_property(pid, tier):
    t0 = time.time()
    mod = module_for(pid)
    stages = mod.plan(tier)
    deadline = t0 + float(os.environ.get("SVMC_CAP_S", CAPS[tier]))
    if "SVMC_STALL_S" not in os.environ:
        core.STALL_S = 1200.0 if tier == "quick" else 3600.0
    only = os.environ.get("SVMC_STAGES")
    for st in stages:
        if only and not re.search(only, st.name):
            continue
        if time.time() > deadline:
            st.exhaustive = False
            st.agg.note("skipped_cap")
            continue
        st.run(deadline)
        if os.environ.get("SVMC_VERBOSE"):
            print(f"  [{pid}] stage {st.name}: {st.agg.evaluations} evals, {st.agg.distinct()} distinct, "
                  f"{len(st.agg.violations)} fp, {st.wall:.1f}s", file=sys.stderr)

    known = load_known(pid)
    head, dirty = repo_head()
    new_violations = []
    known_seen = {}
    os.makedirs(REPLAY_DIR, exist_ok=True)
    for st in stages:
        for v in st.agg.violations:
            if v["fp"] in known:
                known_seen.setdefault(v["fp"], (st, v))
                continue
            if any(v["fp"] == w["fp"] for _, w in new_violations):
                continue
            new_violations.append((st, v))

    rc = 0
    for fp, text in known.items():
        if fp in known_seen:
            print(f"KNOWN-FINDING: property={pid} {fp} {text}")
        else:
            print(f"KNOWN-FINDING: property={pid} {fp} {text} (listed; not observed in this {tier} run)")
    for st, v in new_violations:
        reproduced = None
        if st.replayable:
            try:
                again = st.replay(v["case"])
                reproduced = any(w["fp"] == v["fp"] for w in again.violations)
            except Exception as e:  # noqa
                reproduced = False
        path = os.path.join(REPLAY_DIR, f"{pid}-{slug(v['fp'])}.json")
        with open(path, "w") as fh:
            json.dump({"property": pid, "stage": st.name, "tier": tier, "case": v["case"], "fingerprint": v["fp"],
                       "explain": v["explain"], "artefacts": v["artefacts"], "count": v["count"],
                       "reproduced": reproduced, "replayable": st.replayable, "repo_head": head, "dirty": dirty,
                       "how_to_replay": f"./check {pid} --replay {path}"}, fh, indent=1)
        print(f"  {v['fp']}: {v['explain'][:600]}")
        print(f"VIOLATION property={pid} replay={path}")
        rc = 1

    write_evidence(pid, tier, mod, stages, time.time() - t0, len(new_violations), known_seen)
    return rc


def write_evidence(pid, tier, mod, stages, wall, nviol, known_seen):
    level = mod.LEVEL
    ran = [s for s in stages if s.agg.evaluations or s.agg.states]
    evals = sum(s.agg.evaluations for s in ran)
    distinct = sum(s.agg.distinct() for s in ran)
    samples = []
    for s in ran:
        for x in s.agg.samples[:2]:
            samples.append({"stage": s.name, "case": x})
    samples = samples[:8]
    outcomes = set()
    for s in ran:
        outcomes |= {f"{k}" for k in s.agg.outcomes}
    cov = {
        "evaluations": evals,
        "distinct_nontrivial": distinct,
        "rule": mod.RULE,
        "samples": samples,
        "exhaustive": all(s.exhaustive for s in stages) and bool(ran) and len(ran) == len(stages),
        "distinct_outcomes": len(outcomes),
        "stages": [s.summary() for s in stages],
        "bounds": getattr(mod, "BOUNDS", {}).get(tier, ""),
        "known_findings_observed": sorted(known_seen),
    }
    # explicit-state stages count their own states; other stages may count one state per distinct case at most
    states = sum(s.agg.states if s.kind == "bfs" else min(s.agg.states, s.agg.distinct()) for s in ran)
    if level == "model_checking" or states:
        cov["states"] = states
        cov["transitions"] = sum(s.agg.transitions for s in ran)
        cov["traces_validated_against_impl"] = sum(s.agg.traces for s in ran)
    caps = [s.name for s in stages if not s.exhaustive]
    if caps:
        cov["capped_stages"] = caps
    head, dirty = repo_head()
    ev = {
        "property_id": pid,
        "tier": tier,
        "seed": core.seed(),
        "level": level,
        "coverage": cov,
        "assumptions": list(getattr(mod, "ASSUMPTIONS", [])),
        "wall_s": round(wall, 2),
        "violations": nviol,
        "repo_head": head,
        "repo_dirty": dirty,
    }
    os.makedirs(EVID_DIR, exist_ok=True)
    path = os.path.join(EVID_DIR, f"{pid}.json")
    tmp = path + ".tmp"
    with open(tmp, "w") as fh:
        json.dump(ev, fh, indent=1, sort_keys=False)
    os.replace(tmp, path)
    try:
        validate_evidence(path)
    except core.HarnessError:
        if not nviol:
            raise     # with violations reported the verdict stands even if (e.g.) nothing non-trivial was left to count


def validate_evidence(path):
    schema = "/root/.vp/EVIDENCE.schema.json"
    vt = "/opt/veriftools/pyvenv/bin/python"
    if os.path.exists(schema) and os.path.exists(vt):
        code = ("import json,sys,jsonschema;"
                "jsonschema.validate(json.load(open(sys.argv[1])),json.load(open(sys.argv[2])))")
        p = subprocess.run([vt, "-c", code, path, schema], capture_output=True, text=True, timeout=300)
        if p.returncode != 0:
            print(f"evidence file {path} does not validate:\n{p.stderr[-1500:]}", file=sys.stderr)
            raise core.HarnessError("evidence invalid")
