"""G: choice-driven generator of the description language (node-local products and whole-envelope bases).

Every function takes a Chooser `ch`; option 0 of every choice is the default.  Nothing here imports the tool.
A generated case is (desc, files): desc = {"SUIT_Envelope_Tagged": ...}, files = {absolute path: bytes}.
"""
from __future__ import annotations

import copy

UINT_B = [0, 1, 23, 24, 255, 256, 65535, 65536, 2**32 - 1, 2**32, 2**64 - 1]
NINT_B = [-1, -24, -25, -256, -257, -65536, -65537, -2**32, -2**32 - 1, -2**64]
LEN_B = [0, 1, 23, 24, 255, 256]
LEN_BIG = [65535, 65536]
TXT = ["", "a", "é", "€𝄞", "yes", "null", "~", "0x1F", "1e3", "1:30", " lead", "trail ", "a: b", "#x", "multi\nline",
       "x" * 23, "x" * 24, "x" * 255, "x" * 256,
       "nel\x85next", "ls\u2028ps\u2029", "\ufeffbom", "del\x7f", "tab\there", "cr\r\nlf", "nul\x00byte", "esc\x1b[0m", "'quoted' \"both\"", "- dash", "? q", "%TAG",
       "& anchor *alias", "!!str tag", "{flow: [1, 2]}", "@at `tick`", "long " + "word " * 40, "trailing space \n", "\n", "\U0001F600"]
ALG5 = ["cose-alg-sha-256", "cose-alg-sha-384", "cose-alg-sha-512", "cose-alg-shake128", "cose-alg-shake256"]
SIGALGS = ["cose-alg-es-256", "cose-alg-es-384", "cose-alg-es-521", "cose-alg-eddsa", "cose-alg-vs-hash-eddsa"]
ENCALGS = ["cose-alg-aes-gcm-256", "cose-alg-aes-gcm-128", "cose-alg-aes-gcm-192"]
KWALGS = ["cose-alg-direct", "cose-alg-a128kw", "cose-alg-a192kw", "cose-alg-a256kw"]
BITS = ["suit-send-record-success", "suit-send-record-failure", "suit-send-sysinfo-success", "suit-send-sysinfo-failure"]
CONDITIONS = ["suit-condition-vendor-identifier", "suit-condition-class-identifier", "suit-condition-image-match",
              "suit-condition-component-slot", "suit-condition-check-content", "suit-condition-dependency-integrity",
              "suit-condition-is-dependency", "suit-condition-abort", "suit-condition-device-identifier",
              "suit-condition-version"]
POLICY_DIRECTIVES = ["suit-directive-process-dependency", "suit-directive-write", "suit-directive-fetch",
                     "suit-directive-copy", "suit-directive-invoke", "suit-directive-swap", "suit-directive-unlink"]
COMPARATORS = ["suit-condition-version-comparison-greater", "suit-condition-version-comparison-greater-equal",
               "suit-condition-version-comparison-equal", "suit-condition-version-comparison-lesser-equal",
               "suit-condition-version-comparison-lesser"]
SEVERABLE = ["suit-payload-fetch", "suit-install", "suit-dependency-resolution", "suit-candidate-verification", "suit-text"]
SEQ_MEMBERS = ["suit-validate", "suit-load", "suit-invoke", "suit_uninstall"]
UUID_RAW = {"raw": "00112233445566778899aabbccddeeff"}


def hexs(n, salt=0):
    return bytes(((i * 5 + salt * 17 + 1) % 256) for i in range(n)).hex()


def fbytes(n, salt=0):
    return bytes(((i * 13 + salt * 29 + 7) % 256) for i in range(n))


def digest(alg="cose-alg-sha-256", b=None):
    d = {"suit-digest-algorithm-id": alg}
    if b is not None:
        d["suit-digest-bytes"] = b
    return d


def minimal(man=None, env=None, alg="cose-alg-sha-256", common=None):
    e = {"suit-authentication-wrapper": {"SuitDigest": digest(alg)},
         "suit-manifest": {"suit-manifest-version": 1, "suit-manifest-sequence-number": 1,
                           "suit-common": common if common is not None else {}}}
    if man:
        e["suit-manifest"].update(man)
    if env:
        e.update(env)
    return {"SUIT_Envelope_Tagged": e}


def in_seq(cmds, member="suit-validate"):
    return minimal(man={member: cmds})


def in_params(params, directive="suit-directive-override-parameters"):
    return in_seq([{directive: params}])


POLICY_ALL = list(BITS)


# ---------------------------------------------------------------------------------------------------
# node builders
# ---------------------------------------------------------------------------------------------------

def g_policy(ch, label="policy"):
    """all 16 subsets in canonical order plus two permuted orders."""
    opts = [list(BITS)]
    for mask in range(16):
        s = [b for i, b in enumerate(BITS) if mask >> i & 1]
        if s != opts[0]:
            opts.append(s)
    opts.append([BITS[1], BITS[0]])
    opts.append([BITS[3], BITS[2], BITS[1], BITS[0]])
    return ch.choose(label, opts)


def g_uuid(ch, label="uuid"):
    return copy.deepcopy(ch.choose(label, [
        {"RFC4122_UUID": "nordicsemi.com"},
        {"RFC4122_UUID": {"namespace": "nordicsemi.com", "name": "nRF54H20_sample_app"}},
        {"RFC4122_UUID": {"name": "only-name"}},
        {"RFC4122_UUID": ""},
        {"RFC4122_UUID": {"namespace": "zażółć", "name": "€"}},
        {"RFC4122_UUID": "NordicSemi.COM"},
        {"RFC4122_UUID": {"namespace": "ACME.Example.org", "name": "Class_A"}},
        {"RFC4122_UUID": {"name": "Device-01.Example.ORG"}},
        {"RFC4122_UUID": {"namespace": " padded ", "name": " x "}},
        dict(UUID_RAW),
    ]))


PART_OPTS = (["M", 2, {"RFC4122_UUID": {"namespace": "nordicsemi.com", "name": "x"}}, "INSTLD_MFST", "CAND_MFST", dict(UUID_RAW),
              {"RFC4122_UUID": {"namespace": "NordicSemi.COM", "name": "MixedCase"}}, {"RFC4122_UUID": "Vendor.Example"}]
             + [{"raw": hexs(n, 3)} for n in (0, 2, 15, 17, 24, 256)] + ["ab", "x" * 23, "x" * 24, "x" * 255, "x" * 256, "zażółć", "€𝄞"]
             + UINT_B[:-1] + NINT_B[:-1] + ["0", "#", "z"])


def g_part(ch, label="part"):
    return copy.deepcopy(ch.choose(label, PART_OPTS))


def g_component_id(ch, label="cid"):
    n = ch.choose(label + ".len", [2, 0, 1, 3])
    return [g_part(ch, f"{label}.{i}") for i in range(n)]


def g_index(ch, label="index"):
    return copy.deepcopy(ch.choose(label, [0, True, [0], [], [0, 1], [255, 256, 65536]] + UINT_B[1:]))


def g_version(ch, label="version"):
    return copy.deepcopy(ch.choose(label, ["1.2.3", "1", "0.0", "1.2.3-rc.1", "2.0.0-alpha", "10.20.30-beta.255", "256.65536.4294967296",
                                           [1, 2, 3], [], [1, -1, 5], [2**64 - 1], [-(2**64)], "1.2.3.4.5.6"]))


def g_digest(ch, label="digest", forms=("hex",), files=None, root="/x"):
    alg = ch.choose(label + ".alg", ALG5)
    form = ch.choose(label + ".form", list(forms))
    if form == "hex":
        return digest(alg, ch.choose(label + ".hex", ["aa" * 32, "", "00", hexs(64)]))
    if form == "absent":
        return digest(alg)
    if form == "raw":
        return digest(alg, {"raw": ch.choose(label + ".raw", ["bb" * 32, ""])})
    raise ValueError(form)


def g_kid(ch, label="kid"):
    return ch.choose(label, [0x7FFFFFE0, 0, 1, 23, 24, 255, 256, 65535, 65536, 2**32 - 1, -1, -25, "0011", "", hexs(24, 9)])


def g_header_sign(ch, label="hdr"):
    h = {"suit-cose-algorithm-id": ch.choose(label + ".alg", SIGALGS)}
    if not ch.choose(label + ".nokid", [False, True]):
        h["suit-cose-key-id"] = g_kid(ch, label + ".kid")
    if ch.choose(label + ".swap", [False, True]) and len(h) == 2:
        h = dict(reversed(list(h.items())))
    return h


def g_cwt(ch, label="cwt"):
    claims = [("Issuer", "iss"), ("Subject", "sub"), ("Audience", "aud"), ("Expiration Time", 2**32), ("Not Before", -1),
              ("Issued At", 0), ("CW ID", "0102")]
    mode = ch.choose(label + ".mode", ["all", "subset", "values", "empty"])
    if mode == "all":
        return dict(claims)
    if mode == "empty":
        return {}
    if mode == "subset":
        mask = ch.choose(label + ".mask", list(range(1, 127)))
        d = {k: v for i, (k, v) in enumerate(claims) if mask >> i & 1}
        if ch.choose(label + ".rev", [False, True]):
            d = dict(reversed(list(d.items())))
        return d
    which = ch.choose(label + ".which", [0, 3, 6])
    k = claims[which][0]
    if which == 0:
        return {k: ch.choose(label + ".txt", TXT)}
    if which == 3:
        return {k: ch.choose(label + ".int", UINT_B + NINT_B)}
    return {k: hexs(ch.choose(label + ".len", LEN_B))}


def g_auth_block(ch, label="auth"):
    prot = g_header_sign(ch, label + ".prot")
    unprot = ch.choose(label + ".unprot", [{}, {"suit-cose-key-id": 5}, {"suit-cose-iv": "0011"}])
    payload = None
    if ch.choose(label + ".cwt", [False, True]):
        payload = g_cwt(ch, label + ".cwt")
    sig = hexs(ch.choose(label + ".siglen", [64, 0, 1, 96, 132, 114, 256]), 5)
    return {"CoseSign1Tagged": {"protected": prot, "unprotected": copy.deepcopy(unprot), "payload": payload, "signature": sig}}


def g_recipient(ch, label="rcp", depth=0):
    r = {}
    r["protected"] = copy.deepcopy(ch.choose(label + ".prot", [{}, "", {"suit-cose-algorithm-id": "cose-alg-a128kw"}]))
    unprot = {"suit-cose-algorithm-id": ch.choose(label + ".alg", KWALGS)}
    if not ch.choose(label + ".nokid", [False, True]):
        unprot["suit-cose-key-id"] = g_kid(ch, label + ".kid")
    r["unprotected"] = unprot
    ct = ch.choose(label + ".ct", [None, 24, 0, 1, 40, 256])
    r["ciphertext"] = None if ct is None else hexs(ct, 11)
    if depth < 2 and ch.choose(label + ".nested", [False, True]):
        n = ch.choose(label + ".nn", [1, 2])
        r["recipients"] = [g_recipient(ch, f"{label}.r{i}", depth + 1) for i in range(n)]
    elif ch.choose(label + ".empty-list", [False, True]):
        r["recipients"] = []            # present and empty: a fourth element that is an empty array
    return r


def n_recipient_keys(ch, root):
    """several dynamic `recipients*` keys in one recipient, in description order that is not the sorted order."""
    leaf = {"protected": {}, "unprotected": {"suit-cose-algorithm-id": "cose-alg-direct", "suit-cose-key-id": 1}, "ciphertext": None}
    leaf2 = {"protected": {}, "unprotected": {"suit-cose-algorithm-id": "cose-alg-a128kw", "suit-cose-key-id": 2}, "ciphertext": "aabb"}
    keys = ch.choose("keys", [["recipients"], ["recipients2", "recipients1"], ["recipientsB", "recipientsA", "recipients"]])
    rcp = {"protected": {}, "unprotected": {"suit-cose-algorithm-id": "cose-alg-a256kw"}, "ciphertext": "00"}
    for i, k in enumerate(keys):
        rcp[k] = [copy.deepcopy(leaf if i % 2 == 0 else leaf2)]
    e = {"CoseEncryptTagged": {"protected": {"suit-cose-algorithm-id": "cose-alg-aes-gcm-256"}, "unprotected": {"suit-cose-iv": "00" * 12},
                               "ciphertext": None, "recipients": [rcp]}}
    return in_params({"suit-parameter-encryption-info": e}), {}


def g_cose_encrypt(ch, label="enc"):
    e = {"protected": {"suit-cose-algorithm-id": ch.choose(label + ".alg", ENCALGS)}}
    iv = ch.choose(label + ".iv", [12, None, 0, 23, 24])
    e["unprotected"] = {} if iv is None else {"suit-cose-iv": hexs(iv, 2)}
    ct = ch.choose(label + ".ct", [None, 0, 16, 300])
    e["ciphertext"] = None if ct is None else hexs(ct, 4)
    n = ch.choose(label + ".nrcp", [1, 0, 2])
    e["recipients"] = [g_recipient(ch, f"{label}.rcp{i}") for i in range(n)]
    return {"CoseEncryptTagged": e}


def g_try_each(ch, label, depth):
    n = ch.choose(label + ".n", [2, 0, 1, 3])
    return [g_sequence(ch, f"{label}.s{i}", depth + 1, short=True) for i in range(n)]


def g_command(ch, label="cmd", depth=0):
    kind = ch.choose(label + ".kind", ["condition", "policy-directive", "index", "params", "try-each", "run-sequence"]
                     if depth < 3 else ["condition", "policy-directive", "index", "params"])
    if kind == "condition":
        return {ch.choose(label + ".name", CONDITIONS): g_policy(ch, label + ".pol")}
    if kind == "policy-directive":
        return {ch.choose(label + ".name", POLICY_DIRECTIVES): g_policy(ch, label + ".pol")}
    if kind == "index":
        return {"suit-directive-set-component-index": g_index(ch, label + ".idx")}
    if kind == "params":
        name = ch.choose(label + ".name", ["suit-directive-override-parameters", "suit-directive-set-parameters"])
        return {name: g_params_small(ch, label + ".p")}
    if kind == "try-each":
        return {"suit-directive-try-each": g_try_each(ch, label + ".te", depth)}
    return {"suit-directive-run-sequence": g_sequence(ch, label + ".rs", depth + 1, short=True)}


def g_sequence(ch, label="seq", depth=0, short=False):
    n = ch.choose(label + ".len", [1, 0, 2] if short else [2, 0, 1, 3])
    return [g_command(ch, f"{label}.{i}", depth) for i in range(n)]


PARAM_DEFAULTS = {
    "suit-parameter-vendor-identifier": {"RFC4122_UUID": "nordicsemi.com"},
    "suit-parameter-class-identifier": {"RFC4122_UUID": {"namespace": "nordicsemi.com", "name": "nRF54H20_sample_app"}},
    "suit-parameter-image-digest": digest("cose-alg-sha-256", "aa" * 32),
    "suit-parameter-component-slot": 1,
    "suit-parameter-strict-order": True,
    "suit-parameter-soft-failure": False,
    "suit-parameter-image-size": {"raw": 1024},
    "suit-parameter-content": "0a0b0c",
    "suit-parameter-encryption-info": {"CoseEncryptTagged": {
        "protected": {"suit-cose-algorithm-id": "cose-alg-aes-gcm-256"}, "unprotected": {"suit-cose-iv": "00" * 12},
        "ciphertext": None, "recipients": [{"protected": {}, "unprotected": {"suit-cose-algorithm-id": "cose-alg-direct",
                                                                              "suit-cose-key-id": 0x7FFFFFE0}, "ciphertext": None}]}},
    "suit-parameter-uri": "http://example.com/file.bin",
    "suit-parameter-source-component": 0,
    "suit-parameter-invoke-args": {"suit-synchronous-invoke": True, "suit-timeout": 1000},
    "suit-parameter-device-identifier": dict(UUID_RAW),
    "suit-parameter-version": {"suit-condition-version-comparison-greater-equal": "1.0.0"},
}
PARAM_NAMES = list(PARAM_DEFAULTS)


def g_params_small(ch, label="p"):
    which = ch.choose(label + ".which", ["uri", "two", "empty", "all"])
    if which == "uri":
        return {"suit-parameter-uri": ch.choose(label + ".uri", ["#file.bin", ""])}
    if which == "two":
        return {"suit-parameter-image-size": {"raw": 7}, "suit-parameter-uri": "u"}
    if which == "empty":
        return {}
    return copy.deepcopy(PARAM_DEFAULTS)


def _raw_encinfo(kw):
    """a well-formed suit-encryption-info blob (bstr .cbor COSE_Encrypt_Tagged) as `encrypt` writes it."""
    from .refcbor import enc, Tag
    rcp = [b"", {1: -6, 4: enc(0x7FFFFFE0)}, None] if not kw else [b"", {1: -5, 4: enc(5)}, bytes(range(40))]
    return enc(enc(Tag(96, [enc({1: 3}), {5: bytes(range(12))}, None, [rcp]]))).hex()


RAW_ENCINFO = _raw_encinfo(False)
RAW_ENCINFO_KW = _raw_encinfo(True)


def g_param_value(ch, name, label="pv"):
    """every alternative / boundary value of one parameter."""
    if name in ("suit-parameter-vendor-identifier", "suit-parameter-class-identifier", "suit-parameter-device-identifier"):
        return g_uuid(ch, label)
    if name == "suit-parameter-image-digest":
        return g_digest(ch, label, forms=("hex", "absent", "raw"))
    if name in ("suit-parameter-component-slot", "suit-parameter-source-component"):
        return ch.choose(label, UINT_B)
    if name in ("suit-parameter-strict-order", "suit-parameter-soft-failure"):
        return ch.choose(label, [True, False])
    if name == "suit-parameter-image-size":
        return {"raw": ch.choose(label, UINT_B)}
    if name == "suit-parameter-content":
        k = ch.choose(label + ".kind", ["hex", "int"])
        if k == "hex":
            return hexs(ch.choose(label + ".len", LEN_B + [3]), 6)
        return ch.choose(label + ".int", UINT_B)
    if name == "suit-parameter-encryption-info":
        k = ch.choose(label + ".kind", ["cose", "raw"])
        if k == "cose":
            return g_cose_encrypt(ch, label + ".enc")
        return {"raw": ch.choose(label + ".raw", [RAW_ENCINFO, RAW_ENCINFO_KW])}
    if name == "suit-parameter-uri":
        return ch.choose(label, TXT)
    if name == "suit-parameter-invoke-args":
        return copy.deepcopy(ch.choose(label, [{"suit-synchronous-invoke": True, "suit-timeout": 1000}, {}, {"suit-synchronous-invoke": False},
                                               {"suit-timeout": 0}, {"suit-timeout": 2**32}, {"suit-timeout": 24, "suit-synchronous-invoke": True}]))
    if name == "suit-parameter-version":
        return {ch.choose(label + ".cmp", COMPARATORS): g_version(ch, label + ".v")}
    raise ValueError(name)


def g_text_map(ch, label="text"):
    mode = ch.choose(label + ".mode", ["typical", "keys", "component", "strings", "langs", "empty"])
    comp_key = '["M", 2, 235577344, 352256]'
    full_comp = {"suit-text-vendor-name": "Nordic Semiconductor ASA", "suit-text-model-name": "nRF5420_cpuapp",
                 "suit-text-vendor-domain": "nordicsemi.com", "suit-text-model-info": "info",
                 "suit-text-component-description": "desc", "suit-text-component-version": "v1.0.0"}
    full_keys = {"suit-text-manifest-description": "md", "suit-text-update-description": "ud",
                 "suit-text-manifest-json-source": "{}", "suit-text-manifest-yaml-source": "a: b"}
    if mode == "typical":
        return {"en": {comp_key: dict(full_comp)}}
    if mode == "empty":
        return ch.choose(label + ".e", [{}, {"en": {}}, {"en": {comp_key: {}}}])
    if mode == "keys":
        mask = ch.choose(label + ".mask", list(range(1, 16)))
        d = {k: v for i, (k, v) in enumerate(full_keys.items()) if mask >> i & 1}
        if ch.choose(label + ".rev", [False, True]):
            d = dict(reversed(list(d.items())))
        if ch.choose(label + ".withcomp", [False, True]):
            d[comp_key] = {"suit-text-vendor-name": "v"}
        return {"en": d}
    if mode == "component":
        mask = ch.choose(label + ".mask", list(range(1, 64)))
        d = {k: v for i, (k, v) in enumerate(full_comp.items()) if mask >> i & 1}
        key = ch.choose(label + ".key", [comp_key, '["a"]', '[]', '["INSTLD_MFST", {"RFC4122_UUID": {"namespace": "n", "name": "c"}}]',
                                         '[{"raw": "0011"}, 300, "txt"]'])
        return {"en": {key: d}}
    if mode == "strings":
        return {"en": {"suit-text-manifest-description": ch.choose(label + ".s", TXT)}}
    return {ch.choose(label + ".l1", ["en", "pl-PL", "", "419", "1", "true", "1.5", "0x1F", "-7", "1e3", "[]", "{}", '"419"', '"true"', '"en"', '"1.5"']): {"suit-text-manifest-description": "a"},
            "de": {"suit-text-update-description": "b"}}


# ---------------------------------------------------------------------------------------------------
# node-local scenarios: ch -> (desc, files)
# ---------------------------------------------------------------------------------------------------

MAN_DEFAULTS = {
    "suit-manifest-version": 1,
    "suit-manifest-sequence-number": 1,
    "suit-common": {"suit-components": [["M", 2]]},
    "suit-reference-uri": "http://example.com/ref",
    "suit-manifest-component-id": ["INSTLD_MFST", {"RFC4122_UUID": {"namespace": "nordicsemi.com", "name": "nRF54H20_sample_root"}}],
    "suit-current-version": "1.2.3",
    "suit-validate": [{"suit-condition-image-match": list(BITS)}],
    "suit-load": [{"suit-directive-copy": [BITS[1]]}],
    "suit-invoke": [{"suit-directive-invoke": [BITS[1]]}],
    "suit-payload-fetch": [{"suit-directive-fetch": [BITS[1]]}],
    "suit-install": [{"suit-directive-write": []}],
    "suit-install-legacy": [{"suit-directive-swap": []}],
    "suit-text": digest("cose-alg-sha-256", "cc" * 32),
    "suit-dependency-resolution": [{"suit-directive-process-dependency": []}],
    "suit-candidate-verification": [{"suit-condition-dependency-integrity": []}],
    "suit_uninstall": [{"suit-directive-unlink": []}],
}
MAN_NAMES = list(MAN_DEFAULTS)


def n_manifest(ch, root):
    fam = ch.choose("fam", ["single", "pair", "ints", "all", "all-reversed"])
    if fam == "single":
        n = ch.choose("name", MAN_NAMES)
        return {"SUIT_Envelope_Tagged": {"suit-authentication-wrapper": {"SuitDigest": digest()},
                                         "suit-manifest": {n: copy.deepcopy(MAN_DEFAULTS[n])}}}, {}
    if fam == "pair":
        a = ch.choose("a", MAN_NAMES)
        b = ch.choose("b", [x for x in MAN_NAMES if x != a])
        return {"SUIT_Envelope_Tagged": {"suit-authentication-wrapper": {"SuitDigest": digest()},
                                         "suit-manifest": {a: copy.deepcopy(MAN_DEFAULTS[a]), b: copy.deepcopy(MAN_DEFAULTS[b])}}}, {}
    if fam == "ints":
        which = ch.choose("which", ["suit-manifest-version", "suit-manifest-sequence-number"])
        d = minimal()
        d["SUIT_Envelope_Tagged"]["suit-manifest"][which] = ch.choose("v", UINT_B)
        return d, {}
    items = list(MAN_DEFAULTS.items())
    if fam == "all-reversed":
        items.reverse()
    return {"SUIT_Envelope_Tagged": {"suit-authentication-wrapper": {"SuitDigest": digest()},
                                     "suit-manifest": copy.deepcopy(dict(items))}}, {}


def n_common(ch, root):
    fam = ch.choose("fam", ["order", "deps", "components", "shared"])
    members = {"suit-dependencies": {"0": {}}, "suit-components": [["M", 2], ["CAND_MFST", 0]],
               "suit-shared-sequence": [{"suit-directive-set-component-index": 0}]}
    if fam == "order":
        import itertools
        perms = [p for r in (0, 1, 2, 3) for p in itertools.permutations(list(members), r)]
        p = ch.choose("perm", perms)
        return minimal(common={k: copy.deepcopy(members[k]) for k in p}), {}
    if fam == "deps":
        n = ch.choose("n", [2, 0, 1, 3])
        keys = ["0", "1", "23", "24", "255", "256", "65536"]
        deps = {}
        for i in range(n):
            k = ch.choose(f"k{i}", [x for x in keys if x not in deps])
            pre = ch.choose(f"pre{i}", ["none", "prefix", "empty-prefix"])
            deps[k] = {} if pre == "none" else {"suit-dependency-prefix": (g_component_id(ch, f"pre{i}.cid") if pre == "prefix" else [])}
        return minimal(common={"suit-dependencies": deps}), {}
    if fam == "components":
        n = ch.choose("n", [1, 0, 2, 3])
        return minimal(common={"suit-components": [g_component_id(ch, f"c{i}") for i in range(n)]}), {}
    return minimal(common={"suit-shared-sequence": g_sequence(ch, "ss", depth=2)}), {}


def n_component_id(ch, root):
    where = ch.choose("where", ["manifest-component-id", "components"])
    cid = g_component_id(ch, "cid")
    if where == "components":
        return minimal(common={"suit-components": [cid]}), {}
    return minimal(man={"suit-manifest-component-id": cid}), {}


def n_commands(ch, root):
    fam = ch.choose("fam", ["policy-commands", "index", "nesting", "members"])
    if fam == "policy-commands":
        name = ch.choose("name", CONDITIONS + POLICY_DIRECTIVES)
        return in_seq([{name: g_policy(ch, "pol")}]), {}
    if fam == "index":
        return in_seq([{"suit-directive-set-component-index": g_index(ch, "idx")}]), {}
    if fam == "nesting":
        return in_seq(g_sequence(ch, "seq", depth=ch.choose("startdepth", [1, 2, 0]))), {}
    # the same sequence in every sequence-valued member (wrapped vs severable-inline)
    member = ch.choose("member", SEQ_MEMBERS + ["suit-payload-fetch", "suit-install", "suit-install-legacy", "suit-dependency-resolution",
                                                "suit-candidate-verification"])
    n = ch.choose("len", [2, 0, 1, 12, 13])
    cmds = [{CONDITIONS[i % len(CONDITIONS)]: [BITS[i % 4]]} for i in range(n)]
    return minimal(man={member: cmds}), {}


def n_two_key_command(ch, root):
    """one dict carrying two commands of the same kind (flattened in order)."""
    a = ch.choose("a", CONDITIONS[:4])
    b = ch.choose("b", [c for c in CONDITIONS[:5] if c != a])
    return in_seq([{a: [BITS[0]], b: []}]), {}


def n_parameters(ch, root):
    fam = ch.choose("fam", ["subset", "pair", "value", "both-directives"])
    if fam == "subset":
        lo = ch.choose("lo", list(range(128)))
        hi = ch.choose("hi", list(range(128)))
        mask = hi * 128 + lo
        return in_params({n: copy.deepcopy(PARAM_DEFAULTS[n]) for i, n in enumerate(PARAM_NAMES) if mask >> i & 1}), {}
    if fam == "pair":
        a = ch.choose("a", PARAM_NAMES)
        b = ch.choose("b", [x for x in PARAM_NAMES if x != a])
        return in_params({a: copy.deepcopy(PARAM_DEFAULTS[a]), b: copy.deepcopy(PARAM_DEFAULTS[b])}), {}
    if fam == "value":
        n = ch.choose("name", PARAM_NAMES)
        return in_params({n: g_param_value(ch, n)}), {}
    d = ch.choose("dir", ["suit-directive-set-parameters", "suit-directive-override-parameters"])
    return in_params(copy.deepcopy(PARAM_DEFAULTS), d), {}


def n_auth(ch, root):
    n = ch.choose("nblocks", [1, 0, 2, 3, 11])
    d = minimal(alg=ch.choose("alg", ALG5))
    aw = d["SUIT_Envelope_Tagged"]["suit-authentication-wrapper"]
    naming = ch.choose("naming", ["from0", "from1", "descending", "free-form"]) if n >= 2 else "from0"
    names = {"from0": [f"SuitAuthentication{i}" for i in range(n)],
             "from1": [f"SuitAuthentication{i + 1}" for i in range(n)],          # as parse numbers them (10 sorts before 2)
             "descending": [f"SuitAuthentication{n - i}" for i in range(n)],
             "free-form": [f"SuitAuthentication{x}" for x in ("Vendor", "Oem", "Backup", "Zeta", "Alpha", "b", "a", "_", "9", "10", "1")[:n]]}[naming]
    for i in range(n):
        if i < 2:
            aw[names[i]] = g_auth_block(ch, f"b{i}")
        else:
            aw[names[i]] = {"CoseSign1Tagged": {"protected": {"suit-cose-algorithm-id": SIGALGS[i % 5], "suit-cose-key-id": i},
                                                "unprotected": {}, "payload": None, "signature": hexs(8 + i, i)}}
    return d, {}


def n_text(ch, root):
    alg = ch.choose("alg", ALG5)
    tm = g_text_map(ch, "text")
    return minimal(man={"suit-text": digest(alg)}, env={"suit-text": tm}), {}


def n_version(ch, root):
    where = ch.choose("where", ["current-version", "parameter"])
    if where == "current-version":
        return minimal(man={"suit-current-version": g_version(ch, "v")}), {}
    return in_params({"suit-parameter-version": {ch.choose("cmp", COMPARATORS): g_version(ch, "v")}}), {}


def _file(files, root, name, data):
    import os
    p = os.path.join(root, name)
    files[p] = data
    return p


def child_env(seq=7, extra=None, alg="cose-alg-sha-256"):
    d = minimal(man={"suit-manifest-sequence-number": seq,
                     "suit-manifest-component-id": ["INSTLD_MFST", {"RFC4122_UUID": {"namespace": "nordicsemi.com", "name": f"child{seq}"}}],
                     "suit-validate": [{"suit-condition-image-match": [BITS[0]]}]}, alg=alg)
    if extra:
        d["SUIT_Envelope_Tagged"].update(extra)
    return d


def n_envelope(ch, root):
    """severable members (inline / severed / severed-absent), integrated payloads and dependencies, member order."""
    files = {}
    fam = ch.choose("fam", ["severable", "payloads", "order", "dependencies"])
    if fam == "severable":
        man, env = {}, {}
        for m in SEVERABLE:
            form = ch.choose(m, ["absent", "inline", "severed", "severed-no-body"] if m != "suit-text" else ["absent", "severed", "severed-no-body"])
            body = [{"suit-directive-fetch": [BITS[1]]}] if m != "suit-text" else {"en": {"suit-text-manifest-description": m}}
            if form == "inline":
                man[m] = body
            elif form in ("severed", "severed-no-body"):
                man[m] = digest(ch.choose(m + ".alg", ALG5), ch.choose(m + ".supplied", [None, "", "ab" * 32, "abcd"]))
                if form == "severed":
                    env[m] = body
        return minimal(man=man, env=env, alg=ch.choose("alg", ALG5)), files
    if fam == "payloads":
        n = ch.choose("n", [1, 0, 2, 3])
        pl = {}
        for i in range(n):
            name = ch.choose(f"name{i}", [f"#file{i}.bin", f"cache://c{i}", "x" * (24 + i), "é" + str(i), str(i), ["true", "null", "[]"][i], ["1.5", "-1", "{}"][i], f"a,b {i}=c"])
            form = ch.choose(f"form{i}", ["hex", "path", "inline-envelope", "empty"])
            if form == "hex":
                pl[name] = hexs(ch.choose(f"len{i}", [4, 1, 23, 24, 255, 256, 65535, 65536]), i)
            elif form == "empty":
                pl[name] = ""
            elif form == "path":
                pl[name] = _file(files, root, ch.choose(f"fname{i}", [f"fw{i}.bin", f"dead{i}beef.bin", f"sub dir{i}/f.bin"]),
                                 fbytes(ch.choose(f"flen{i}", [100, 0, 1, 65536]), i))
            else:
                pl[name] = child_env(seq=10 + i)
        where = ch.choose("member", ["suit-integrated-payloads", "suit-integrated-dependencies", "split"])
        env = {}
        if where == "split" and len(pl) >= 2:
            items = list(pl.items())
            env["suit-integrated-payloads"] = dict(items[:1])
            env["suit-integrated-dependencies"] = dict(items[1:])
        else:
            env["suit-integrated-dependencies" if where == "suit-integrated-dependencies" else "suit-integrated-payloads"] = pl
        return minimal(env=env), files
    if fam == "order":
        import itertools
        parts = {"suit-authentication-wrapper": {"SuitDigest": digest()},
                 "suit-manifest": {"suit-manifest-version": 1, "suit-manifest-sequence-number": 1, "suit-common": {},
                                   "suit-install": digest()},
                 "suit-install": [{"suit-directive-write": []}],
                 "suit-integrated-payloads": {"#a": "0102"}}
        perm = ch.choose("perm", list(itertools.permutations(list(parts))))
        return {"SUIT_Envelope_Tagged": {k: copy.deepcopy(parts[k]) for k in perm}}, files
    # dependencies: digest by envelope reference (inline / path) + embedded child (inline / path), depth 1-2
    depth = ch.choose("depth", [1, 2, 3])
    alg_parent = ch.choose("palg", ALG5)
    alg_child = ch.choose("calg", ALG5)
    grand = child_env(seq=30, alg="cose-alg-sha-512")
    child = child_env(seq=20, alg=alg_child)
    if depth == 3:
        great = child_env(seq=40, alg="cose-alg-shake256", extra={"suit-integrated-payloads": {"#leaf": "00ff"}})
        great["SUIT_Envelope_Tagged"]["suit-manifest"]["suit-text"] = digest("cose-alg-sha-384", "00")
        great["SUIT_Envelope_Tagged"]["suit-text"] = {"en": {"suit-text-manifest-description": "level 3"}}
        grand["SUIT_Envelope_Tagged"]["suit-integrated-dependencies"] = {"#great": great}
    if depth >= 2:
        child["SUIT_Envelope_Tagged"]["suit-integrated-dependencies"] = {"#grand": grand}
        child["SUIT_Envelope_Tagged"]["suit-manifest"]["suit-install"] = [{"suit-directive-override-parameters": {
            "suit-parameter-image-digest": digest("cose-alg-sha-384", {"envelope": copy.deepcopy(grand)})}}]
    ref = ch.choose("ref", ["inline", "inline-both-same-object"])
    dref = copy.deepcopy(child) if ref == "inline" else child
    parent = minimal(man={"suit-install": [{"suit-directive-override-parameters": {
        "suit-parameter-uri": "#child",
        "suit-parameter-image-digest": digest(alg_parent, {"envelope": dref}),
        "suit-parameter-image-size": {"envelope": copy.deepcopy(child)}}}]},
        env={"suit-integrated-dependencies": {"#child": child}})
    return parent, files


NODE_SCENARIOS = {
    "manifest": n_manifest,
    "common": n_common,
    "component-id": n_component_id,
    "commands": n_commands,
    "two-key-command": n_two_key_command,
    "parameters": n_parameters,
    "auth": n_auth,
    "recipient-keys": n_recipient_keys,
    "text": n_text,
    "version": n_version,
    "envelope": n_envelope,
}


# ---------------------------------------------------------------------------------------------------
# union-decoder alphabet (C03): byte strings that begin with a complete CBOR item of another alternative
# ---------------------------------------------------------------------------------------------------
CONFUSABLE = ["05", "05ff", "0102030405", "1841ff", "1841", "20", "20ff", "6161", "6161ff", "f6", "f6aabb", "f5", "a0", "80",
              "d82a00", "", "4101", "ff", "1b0000000000000001"]
PART_CONFUSABLE = ([{"raw": x} for x in CONFUSABLE] + [{"raw": hexs(n, 8)} for n in (1, 2, 15, 16, 17)]
                   + ["x" * 15, "x" * 16, "a", "Z", "7", "#", "é", "ß", "€", 0, 23, -1, -24, 24, "61", "0011", "deadbeef"])


# integrated payloads that begin like an envelope (tag 107) without being one: firmware that happens to start with D8 6B,
# an envelope cut short, a tagged map that lacks the manifest
_CHILD = ("d86ba2025827815824822f5820fb97d8b98e7d968203700cdeea0d8bbdf22f445d70f1c5901666bc7c2fadd77403582da5010102030341a005824c6b"
          "494e53544c445f4d465354509ab1d383f2005df78862a29dbc75ad710743820301")          # a complete, valid little envelope
ENVELOPE_LOOKALIKES = ["d86b", "d86b00", "d86ba0", "d86ba0" + "ab" * 10, "d86ba10241ff", "d86ba1034100", "d86bbf",
                       _CHILD + "0000",                                                  # a valid envelope followed by more bytes
                       _CHILD[:-6],                                                      # ... cut short
                       "d86ba103" + _CHILD[_CHILD.index("03582d") + 2:],                  # manifest only
                       "d86ba1" + _CHILD[6:_CHILD.index("03582d")]]                       # authentication wrapper only


def n_confusable(ch, root):
    where = ch.choose("where", ["content", "key-id", "ciphertext", "recipient-ciphertext", "component-part", "unprotected-kid", "iv",
                                "cw-id", "signature", "payload"])
    if where == "component-part":
        p1 = copy.deepcopy(ch.choose("part", PART_CONFUSABLE))
        pos = ch.choose("pos", ["only", "first", "last"])
        cid = {"only": [p1], "first": [p1, "M"], "last": ["INSTLD_MFST", p1]}[pos]
        slot = ch.choose("slot", ["components", "manifest-component-id", "dependency-prefix", "text-key"])
        if slot == "components":
            return minimal(common={"suit-components": [cid]}), {}
        if slot == "manifest-component-id":
            return minimal(man={"suit-manifest-component-id": cid}), {}
        if slot == "dependency-prefix":
            return minimal(common={"suit-dependencies": {"0": {"suit-dependency-prefix": cid}}, "suit-components": [["a"]]}), {}
        import json
        return minimal(man={"suit-text": digest()}, env={"suit-text": {"en": {json.dumps(cid): {"suit-text-vendor-name": "v"}}}}), {}
    v = ch.choose("value", CONFUSABLE + (ENVELOPE_LOOKALIKES if where == "payload" else []))
    if where == "content":
        return in_params({"suit-parameter-content": v}), {}
    if where == "payload":
        return minimal(env={"suit-integrated-payloads": {"#a": v}}), {}
    if where in ("key-id", "unprotected-kid", "cw-id", "signature"):
        blk = {"CoseSign1Tagged": {"protected": {"suit-cose-algorithm-id": "cose-alg-es-256"}, "unprotected": {}, "payload": None, "signature": "aabb"}}
        if where == "key-id":
            blk["CoseSign1Tagged"]["protected"]["suit-cose-key-id"] = v
        elif where == "unprotected-kid":
            blk["CoseSign1Tagged"]["unprotected"] = {"suit-cose-key-id": v}
        elif where == "cw-id":
            blk["CoseSign1Tagged"]["payload"] = {"CW ID": v}
        else:
            blk["CoseSign1Tagged"]["signature"] = v
        d = minimal()
        d["SUIT_Envelope_Tagged"]["suit-authentication-wrapper"]["SuitAuthentication0"] = blk
        return d, {}
    enc_ = copy.deepcopy(PARAM_DEFAULTS["suit-parameter-encryption-info"])
    if where == "ciphertext":
        enc_["CoseEncryptTagged"]["ciphertext"] = v
    elif where == "recipient-ciphertext":
        enc_["CoseEncryptTagged"]["recipients"][0]["ciphertext"] = v
    else:
        enc_["CoseEncryptTagged"]["unprotected"]["suit-cose-iv"] = v
    return in_params({"suit-parameter-encryption-info": enc_}), {}


NODE_SCENARIOS["confusable"] = n_confusable


def _place_bytes(where, v):
    if where == "content":
        return in_params({"suit-parameter-content": v})
    if where == "component-part":
        return minimal(common={"suit-components": [[{"raw": v}, "M"]]})
    if where == "key-id":
        d = minimal()
        d["SUIT_Envelope_Tagged"]["suit-authentication-wrapper"]["SuitAuthentication0"] = {"CoseSign1Tagged": {
            "protected": {"suit-cose-algorithm-id": "cose-alg-es-256", "suit-cose-key-id": v}, "unprotected": {}, "payload": None, "signature": "aabb"}}
        return d
    enc_ = copy.deepcopy(PARAM_DEFAULTS["suit-parameter-encryption-info"])
    if where == "ciphertext":
        enc_["CoseEncryptTagged"]["ciphertext"] = v
    else:
        enc_["CoseEncryptTagged"]["recipients"][0]["ciphertext"] = v
    return in_params({"suit-parameter-encryption-info": enc_})


def n_single_byte(ch, root):
    """every one-byte string (all 256 values, incl. heads that announce more bytes than there are) at every union leaf."""
    where = ch.choose("where", ["content", "key-id", "component-part", "ciphertext", "recipient-ciphertext"])
    hi = ch.choose("hi", list(range(16)))
    lo = ch.choose("lo", list(range(16)))
    return _place_bytes(where, f"{hi:x}{lo:x}"), {}


def n_two_bytes(ch, root):
    """every two-byte string as parameter content / key id (thorough)."""
    where = ch.choose("where", ["content", "key-id"])
    a = ch.choose("a", list(range(256)))
    b = ch.choose("b", list(range(256)))
    return _place_bytes(where, f"{a:02x}{b:02x}"), {}


NODE_SCENARIOS["single-byte"] = n_single_byte
NODE_SCENARIOS["two-bytes"] = n_two_bytes


# ---------------------------------------------------------------------------------------------------
# whole-envelope scenario: one realistic envelope in which many features co-occur; every feature is a choice point, so
# deviation bound d covers all interactions of up to d features (root, hierarchical, signed, severed, encrypted ...)
# ---------------------------------------------------------------------------------------------------

def n_whole(ch, root):
    files = {}
    B = BITS
    alg = ch.choose("wrapper-alg", ALG5)
    man = {"suit-manifest-version": 1, "suit-manifest-sequence-number": ch.choose("seq", [1, 0, 24, 2**32])}
    comps = copy.deepcopy(ch.choose("components", [[["M", 2, 235577344, 352256]], [], [["M", 2, 235577344, 352256], ["CAND_MFST", 0], ["INSTLD_MFST", dict(UUID_RAW)]]]))
    common = {"suit-components": comps}
    if ch.choose("dependencies", [False, True]):
        common["suit-dependencies"] = {"0": {}, "1": {"suit-dependency-prefix": ["a", 7]}}
    shared = [{"suit-directive-set-component-index": ch.choose("idx", [0, True, [0]])},
              {"suit-directive-override-parameters": {
                  "suit-parameter-vendor-identifier": {"RFC4122_UUID": "nordicsemi.com"},
                  "suit-parameter-class-identifier": {"RFC4122_UUID": {"namespace": "nordicsemi.com", "name": "nRF54H20_sample_app"}}}},
              {"suit-condition-vendor-identifier": list(B)}, {"suit-condition-class-identifier": list(B)}]
    fwp = _file(files, root, "fw.bin", fbytes(ch.choose("fwlen", [300, 0, 24])))
    img = ch.choose("image-params", ["file", "raw", "none"])
    if img == "file":
        shared[1]["suit-directive-override-parameters"].update({"suit-parameter-image-digest": digest(ch.choose("img-alg", ALG5), {"file": fwp}),
                                                                "suit-parameter-image-size": {"file": fwp}})
    elif img == "raw":
        shared[1]["suit-directive-override-parameters"].update({"suit-parameter-image-digest": digest("cose-alg-sha-256", "aa" * 32),
                                                                "suit-parameter-image-size": {"raw": 300}})
    common["suit-shared-sequence"] = shared
    man["suit-common"] = common
    if ch.choose("component-id", [True, False]):
        man["suit-manifest-component-id"] = ["INSTLD_MFST", {"RFC4122_UUID": {"namespace": "nordicsemi.com", "name": "nRF54H20_sample_root"}}]
    if ch.choose("version", [True, False]):
        man["suit-current-version"] = ch.choose("version.v", ["1.2.3", "2.0.0-rc.1"])
    man["suit-validate"] = [{"suit-condition-image-match": list(B)}]
    if ch.choose("invoke", [True, False]):
        man["suit-invoke"] = [{"suit-directive-invoke": [B[1]]}]
    env = {}
    install = [{"suit-directive-override-parameters": {"suit-parameter-uri": "#fw"}}, {"suit-directive-fetch": [B[1]]},
               {"suit-condition-image-match": list(B)}]
    enc_ = ch.choose("encryption", ["none", "cose", "raw"])
    if enc_ != "none":
        install[0]["suit-directive-override-parameters"]["suit-parameter-encryption-info"] = (
            copy.deepcopy(PARAM_DEFAULTS["suit-parameter-encryption-info"]) if enc_ == "cose" else {"raw": RAW_ENCINFO})
    if ch.choose("try-each", [False, True]):
        install.append({"suit-directive-try-each": [[{"suit-directive-copy": []}], [{"suit-directive-run-sequence": [{"suit-condition-abort": []}]}]]})
    sev = ch.choose("install-form", ["severed", "inline", "severed-no-body"])
    if sev == "inline":
        man["suit-install"] = install
    else:
        man["suit-install"] = digest(ch.choose("install-alg", ALG5))
        if sev == "severed":
            env["suit-install"] = install
    txt = ch.choose("text", ["severed", "none", "severed-no-body"])
    if txt != "none":
        man["suit-text"] = digest("cose-alg-sha-256", ch.choose("text-supplied", ["", "ab" * 32]))
        if txt == "severed":
            env["suit-text"] = {"en": {'["M", 2, 235577344, 352256]': {"suit-text-vendor-name": "Nordic Semiconductor ASA", "suit-text-model-name": "m"},
                                       "suit-text-manifest-description": ch.choose("text-desc", ["desc", "yes", "multi\nline", ""])}}
    dep = ch.choose("dependency", ["none", "inline", "path", "inline-signed-like"])
    if dep != "none":
        child = child_env(seq=9, alg=ch.choose("child-alg", ALG5), extra={"suit-integrated-payloads": {"#leaf": "0102"}})
        if dep == "inline-signed-like":
            child["SUIT_Envelope_Tagged"]["suit-authentication-wrapper"]["SuitAuthentication0"] = {"CoseSign1Tagged": {
                "protected": {"suit-cose-algorithm-id": "cose-alg-eddsa", "suit-cose-key-id": 3}, "unprotected": {}, "payload": None, "signature": "cd" * 64}}
        man["suit-candidate-verification"] = [{"suit-directive-override-parameters": {
            "suit-parameter-uri": "#dep", "suit-parameter-image-digest": digest(ch.choose("dep-alg", ALG5), {"envelope": copy.deepcopy(child)})}},
            {"suit-directive-fetch": [B[1]]}, {"suit-condition-dependency-integrity": list(B)}, {"suit-directive-process-dependency": list(B)}]
        env["suit-integrated-dependencies"] = {"#dep": child}
    pay = ch.choose("payload", ["path", "hex", "none", "two"])
    if pay == "path":
        env["suit-integrated-payloads"] = {"#fw": fwp}
    elif pay == "hex":
        env["suit-integrated-payloads"] = {"#fw": "c0ffee"}
    elif pay == "two":
        env["suit-integrated-payloads"] = {"#fw": fwp, "#second": hexs(40)}
    aw = {"SuitDigest": digest(alg, ch.choose("supplied-wrapper-digest", [None, "", "ee" * 32]))}
    if aw["SuitDigest"].get("suit-digest-bytes") is None:
        aw["SuitDigest"].pop("suit-digest-bytes", None)
    nsig = ch.choose("signatures", [0, 1, 2])
    for i in range(nsig):
        aw[f"SuitAuthentication{i}"] = {"CoseSign1Tagged": {"protected": {"suit-cose-algorithm-id": SIGALGS[i], "suit-cose-key-id": 0x7FFFFFE0 + i},
                                                            "unprotected": {}, "payload": None if i == 0 else {"Issuer": "svmc"}, "signature": hexs(64, i)}}
    order = ch.choose("member-order", ["auth-first", "manifest-first", "payloads-first"])
    e = {}
    parts = {"auth": {"suit-authentication-wrapper": aw}, "man": {"suit-manifest": man}, "rest": env}
    seqn = {"auth-first": ["auth", "man", "rest"], "manifest-first": ["man", "auth", "rest"], "payloads-first": ["rest", "auth", "man"]}[order]
    for k in seqn:
        e.update(parts[k])
    return {"SUIT_Envelope_Tagged": e}, files


NODE_SCENARIOS["whole"] = n_whole
