"""Independent Intel-HEX reader: record types 00-05, checksums, duplicate addresses, EOF discipline."""
from __future__ import annotations


class HexError(ValueError):
    pass


def read_hex(text: str) -> dict:
    """Return {absolute address: byte}.  Raises HexError on any malformation."""
    mem = {}
    base = 0
    eof = False
    lines = text.splitlines()
    for ln, line in enumerate(lines, 1):
        line = line.strip()
        if not line:
            continue
        if eof:
            raise HexError(f"line {ln}: data after EOF record")
        if not line.startswith(":"):
            raise HexError(f"line {ln}: no start code")
        try:
            rec = bytes.fromhex(line[1:])
        except ValueError:
            raise HexError(f"line {ln}: not hex")
        if len(rec) < 5:
            raise HexError(f"line {ln}: short record")
        n, addr, typ = rec[0], int.from_bytes(rec[1:3], "big"), rec[3]
        if len(rec) != n + 5:
            raise HexError(f"line {ln}: length field {n} does not match record size {len(rec) - 5}")
        if sum(rec) & 0xFF:
            raise HexError(f"line {ln}: bad checksum")
        data = rec[4:4 + n]
        if typ == 0:
            for i, b in enumerate(data):
                a = (base + addr + i) & 0xFFFFFFFF
                if a in mem:
                    raise HexError(f"line {ln}: address 0x{a:08X} written twice")
                mem[a] = b
        elif typ == 1:
            if n != 0:
                raise HexError(f"line {ln}: EOF with data")
            eof = True
        elif typ == 2:
            if n != 2:
                raise HexError(f"line {ln}: bad type-02 length")
            base = int.from_bytes(data, "big") << 4
        elif typ == 4:
            if n != 2:
                raise HexError(f"line {ln}: bad type-04 length")
            base = int.from_bytes(data, "big") << 16
        elif typ in (3, 5):
            if n != 4:
                raise HexError(f"line {ln}: bad start-address record")
        else:
            raise HexError(f"line {ln}: unknown record type {typ}")
    if not eof:
        raise HexError("missing EOF record")
    return mem


def read_hex_file(path: str) -> dict:
    with open(path, "r", encoding="ascii") as fh:
        return read_hex(fh.read())


def regions(mem: dict) -> list:
    """Sorted list of (start, bytes) for maximal contiguous regions."""
    out = []
    cur_start = None
    cur = bytearray()
    prev = None
    for a in sorted(mem):
        if prev is None or a != prev + 1:
            if cur_start is not None:
                out.append((cur_start, bytes(cur)))
            cur_start = a
            cur = bytearray()
        cur.append(mem[a])
        prev = a
    if cur_start is not None:
        out.append((cur_start, bytes(cur)))
    return out


def write_hex(mem_regions, path):
    """Minimal writer used only to build *inputs* (e.g. MPI records placed at chosen addresses)."""
    lines = []
    cur_upper = None
    for start, data in mem_regions:
        off = 0
        while off < len(data):
            a = start + off
            upper = a >> 16
            if upper != cur_upper:
                rec = bytes([2, 0, 0, 4]) + upper.to_bytes(2, "big")
                lines.append(":" + (rec + bytes([(-sum(rec)) & 0xFF])).hex().upper())
                cur_upper = upper
            n = min(16, len(data) - off, 0x10000 - (a & 0xFFFF))
            rec = bytes([n]) + (a & 0xFFFF).to_bytes(2, "big") + b"\x00" + data[off:off + n]
            lines.append(":" + (rec + bytes([(-sum(rec)) & 0xFF])).hex().upper())
            off += n
    lines.append(":00000001FF")
    with open(path, "w", encoding="ascii") as fh:
        fh.write("\n".join(lines) + "\n")
