"""Adapters around the real tool (in-process library calls, cmd mains with files, CLI subprocess) and diff helpers."""
from __future__ import annotations

import copy
import json
import os
import subprocess
import sys
import traceback

from . import core, refcbor


def write_files(files):
    for p, data in files.items():
        os.makedirs(os.path.dirname(p), exist_ok=True)
        with open(p, "wb") as fh:
            fh.write(data)


def site_of(exc) -> str:
    """Qualified name of the innermost raising function inside the tool (never a line number)."""
    tb = traceback.extract_tb(exc.__traceback__)
    repo = os.path.realpath(core.REPO)
    name = None
    for fr in tb:
        fn = os.path.realpath(fr.filename)
        if fn.startswith(repo):
            name = f"{os.path.relpath(fn, repo)}:{fr.name}"
    if name is None and tb:
        name = f"{os.path.basename(tb[-1].filename)}:{tb[-1].name}"
    return name or "?"


JUNK = b"STALE-OUTPUT-OF-AN-EARLIER-RUN " * 4096       # 128 KiB: longer than anything the checks produce there


def prefill(path):
    """the output path already exists and holds longer content (a command must replace, not overwrite in place)."""
    os.makedirs(os.path.dirname(path) or ".", exist_ok=True)
    with open(path, "wb") as fh:
        fh.write(JUNK)
    return path


def tool_create(desc) -> bytes:
    """Library path of create: from_obj + digest refresh + to_cbor (what InputOutputMixin.prepare_suit_data does)."""
    from suit_generator.input_output import InputOutputMixin
    return InputOutputMixin.prepare_suit_data(copy.deepcopy(desc))


JSON_STYLES = [{}, {"indent": 2}, {"indent": "\t", "separators": (",", ": ")}, {"separators": (",", ":")}]
YAML_STYLES = [{}, {"default_flow_style": True}, {"line_break": "\r\n"}, {"explicit_start": True, "explicit_end": True, "width": 40}, {"indent": 6, "width": 100000}]


def dump_desc(desc, path, fmt, style=None):
    """one of several equivalent renderings of the same description (layout, line ends, flow / block style), chosen by
    the content hash unless `style` is given: the text a formatter, an editor on another platform or a generator writes"""
    if style is None:
        style = core.h8("text-style", json.dumps(desc, sort_keys=True, default=str)[:4000])
    if fmt == "json":
        text = json.dumps(desc, **JSON_STYLES[style % len(JSON_STYLES)])
        if style % 5 == 2:
            text = text.replace("\n", "\r\n") + "\r\n"
        with open(path, "w", encoding="utf-8", newline="") as fh:
            fh.write(text)
    else:
        import yaml
        with open(path, "w", encoding="utf-8", newline="") as fh:
            # escapes (allow_unicode would write NEL / LS / PS raw, which YAML folds)
            yaml.safe_dump(desc, fh, sort_keys=False, **YAML_STYLES[style % len(YAML_STYLES)])


# file names a project may well use: characters that mean something to a shell, to glob, to argparse, to a URL or suffix parser
ODD_STEMS = ["@", "@[1]", "@ x", "@.v2", "-@", "@*", "@?", "{@}", "#@", "@ń€", "@.yaml", "@.suit"]


def odd_name(stem_hint: str, ext: str, salt) -> str:
    """<odd stem>.<ext> chosen by the content hash (deterministic); upper-case extension for one in seven"""
    h = core.h8("odd-name", stem_hint, salt)
    stem = ODD_STEMS[h % len(ODD_STEMS)].replace("@", stem_hint)
    return f"{stem}.{ext.upper() if h % 7 == 3 else ext}"


def tool_create_main(desc, d, fmt="json") -> bytes:
    """cmd_create.main with a real description file."""
    from suit_generator import cmd_create
    salt = json.dumps(desc, sort_keys=True, default=str)[:4000]
    inp = os.path.join(d, odd_name("in", fmt, salt))
    out = os.path.join(d, odd_name("out", "suit", salt))
    dump_desc(desc, inp, fmt)
    prefill(out)
    cmd_create.main(input_file=inp, input_format="AUTO", output_file=out)
    with open(out, "rb") as fh:
        return fh.read()


def tool_parse_obj(data: bytes):
    from suit_generator.suit.envelope import SuitEnvelopeTagged
    return SuitEnvelopeTagged.from_cbor(data).to_obj()


def tool_parse_main(data: bytes, d, fmt="yaml", hierarchy=False):
    """cmd_parse.main through files; returns the text of the description file."""
    from suit_generator import cmd_parse
    inp = os.path.join(d, odd_name("p_in", "suit", data))
    out = os.path.join(d, odd_name("p_out", fmt, data))
    with open(inp, "wb") as fh:
        fh.write(data)
    prefill(out)
    cmd_parse.main(input_file=inp, output_file=out, output_format="AUTO", parse_hierarchy=hierarchy)
    return out


def cli(args, cwd, timeout=120, extra_env=None):
    """Real CLI subprocess: python -m suit_generator.cli ... with cwd=scratch and a private log file."""
    env = dict(os.environ)
    env.update(extra_env or {})
    env["PYTHONPATH"] = core.REPO + os.pathsep + env.get("PYTHONPATH", "")
    cmd = [sys.executable, os.path.join(core.REPO, "suit_generator", "cli.py"), "--log-filename", os.path.join(cwd, "cli.log")] + list(args)
    p = subprocess.run(cmd, cwd=cwd, env=env, capture_output=True, text=True, timeout=timeout)
    return p.returncode, p.stdout, p.stderr


# ---------------------------------------------------------------------------------------------------
# structural diff of two encodings
# ---------------------------------------------------------------------------------------------------

def diff_path(a: bytes, b: bytes) -> tuple:
    """-> (path, description) of the first difference between two CBOR encodings (descends through bstr .cbor)."""
    try:
        ia, ib = refcbor.decode(a), refcbor.decode(b)
    except refcbor.CborError as e:
        return "<undecodable>", f"{e}"
    # envelopes: look at the manifest and the other members before the authentication wrapper, whose digest differs
    # as a mere consequence of any difference in the manifest
    try:
        if ia.kind == ib.kind == "tag" and ia.value == ib.value == 107 and ia.items[0].kind == ib.items[0].kind == "map" \
                and [k.value for k, _ in ia.items[0].items] == [k.value for k, _ in ib.items[0].items]:
            pa, pb = ia.items[0].items, ib.items[0].items
            order = sorted(range(len(pa)), key=lambda i: (0 if pa[i][0].value == 3 else 2 if pa[i][0].value == 2 else 1, i))
            for i in order:
                kn = pa[i][0].value
                r = _diff(a, pa[i][1], b, pb[i][1], f"/tag107/{kn if isinstance(kn, int) else '<name>'}")
                if r:
                    return r
    except Exception:
        pass
    return _diff(a, ia, b, ib, "")


def _short(data, it):
    r = it.raw(data)
    return r[:24].hex() + ("..." if len(r) > 24 else "")


def _diff(a, ia, b, ib, path):
    if ia.kind != ib.kind:
        return path or "/", f"type {ia.kind} ({_short(a, ia)}) vs {ib.kind} ({_short(b, ib)})"
    k = ia.kind
    if ia.indef != ib.indef:
        return path or "/", "indefinite vs definite length"
    if k in ("uint", "nint", "simple", "float", "tstr"):
        if ia.value != ib.value:
            return path or "/", f"{k} {ia.value!r} vs {ib.value!r}"
        if ia.head != ib.head:
            return path or "/", f"{k} head width {ia.head} vs {ib.head}"
        return None
    if k == "bstr":
        if ia.value == ib.value:
            if ia.head != ib.head:
                return path or "/", f"bstr head width {ia.head} vs {ib.head}"
            return None
        try:
            ca, cb = refcbor.decode(ia.value), refcbor.decode(ib.value)
        except refcbor.CborError:
            return path or "/", f"bstr {ia.value[:24].hex()}({len(ia.value)}) vs {ib.value[:24].hex()}({len(ib.value)})"
        r = _diff(ia.value, ca, ib.value, cb, path + "/<bstr>")
        return r or (path or "/", "bstr contents differ in encoding only")
    if k == "tag":
        if ia.value != ib.value:
            return path or "/", f"tag {ia.value} vs {ib.value}"
        return _diff(a, ia.items[0], b, ib.items[0], path + f"/tag{ia.value}")
    if k == "array":
        for i, (x, y) in enumerate(zip(ia.items, ib.items)):
            r = _diff(a, x, b, y, path + "/[]")
            if r:
                return r[0], f"element {i}: {r[1]}"
        if len(ia.items) != len(ib.items):
            return path + "/[]", f"array length {len(ia.items)} vs {len(ib.items)}"
        if ia.head != ib.head:
            return path or "/", "array head width"
        return None
    if k == "map":
        for i, ((ka, va), (kb, vb)) in enumerate(zip(ia.items, ib.items)):
            r = _diff(a, ka, b, kb, path + "/<key>")
            if r:
                return path + "/<key>", f"entry {i}: key {_short(a, ka)} vs {_short(b, kb)}"
            kn = ka.value if ka.kind in ("uint", "nint", "tstr") else "k"
            r = _diff(a, va, b, vb, path + f"/{kn}")
            if r:
                return r
        if len(ia.items) != len(ib.items):
            return path + "/<map>", f"map size {len(ia.items)} vs {len(ib.items)}"
        if ia.head != ib.head:
            return path or "/", "map head width"
        return None
    return None


def envelope_members(data: bytes):
    """-> (Item map of the envelope, {key: raw item bytes}) using the verifier's reader."""
    top = refcbor.decode(data)
    if top.kind != "tag" or top.value != 107 or top.items[0].kind != "map":
        raise refcbor.CborError("not a tagged SUIT envelope")
    env = top.items[0]
    out = {}
    for k, v in env.items:
        out[k.value] = v.raw(data)
    return env, out
