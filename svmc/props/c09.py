"""C09 - signing policy: already-signed action, key match, recursive configuration."""
from __future__ import annotations

import copy
import itertools
import json
import os

from .. import core, gen, impl, refcbor, refcose, keys as vkeys
from ..core import CaseStage, BfsStage, ExploreStage, fresh_dir, h8, seed_slice, tuplify
from ..refcbor import enc
from .c04 import scripts

LEVEL = "model_checking"
RULE = ("single level: full product {unsigned, signed by key A} x {error, skip, remove-old} x 5 algorithms x 5 key types "
        "(matching and every mismatching) through cmd_sign.main, then the policy machine explored breadth-first: state = "
        "list of signers present (reference model), transitions = every (action, algorithm, key) operation, each "
        "executed on the real envelope of that state and compared with the model (conformance on every transition). "
        "recursive: every rooted tree shape with depth<=3, <=2 children, <=5 nodes; per node the configuration points "
        "{sign, omit-signing with/without key fields, not named} x algorithm own/inherited x key match/mismatch x "
        "input unsigned/signed x already-signed action x KMS context own/inherited (path or JSON form) x scripts from configuration/environment x structural faults {absent, raw payload, bstr that is not a tag, "
        "undecodable}; deviation-bounded exploration from 'every node named and signed with its own key'. Oracle: a "
        "reference model of expected signers per node; every named node carries exactly the expected signature "
        "(verified with that node's public key and key id), all manifests and unnamed members byte-identical, "
        "omit-signing nodes keep their authentication list, refusals raise and leave no output file.")
ASSUMPTIONS = ["svmc/refcose.py, cryptography verification", "inputs are unsigned or singly signed (as the property quantifies)",
               "'skip' on a signed input returns it unchanged without consulting the key (first clause of the property)"]
BOUNDS = {"quick": "single-level product complete; policy machine depth 2 (reused signer object: all 33^2 sequences); recursive deviation bound 2 on all 9 shapes",
          "thorough": "single-level product complete; policy machine depth 3 (reused signer: all 33^3 sequences); recursive deviation bound 3"}

ALGS = ["eddsa", "es-256", "es-384", "es-521", "hash-eddsa"]
KEYT = ["ed25519", "p256", "p384", "p521", "ed448"]
MATCH = {("eddsa", "ed25519"), ("eddsa", "ed448"), ("hash-eddsa", "ed25519"), ("es-256", "p256"), ("es-384", "p384"), ("es-521", "p521")}
# hash-eddsa with an Ed448 key: the KMS accepts the type but Ed448ph is not what the property lists; kept out
SKIP_PAIRS = {("hash-eddsa", "ed448")}
ACTIONS = ["error", "skip", "remove-old"]
KID = 0x7FFFFFE0


def sign_main(inp, outp, key, alg, action, kid=KID):
    from suit_generator import cmd_sign
    from suit_generator.suit_sign_script_base import SuitSignAlgorithms, SignatureAlreadyPresentActions
    s, k = scripts()
    cmd_sign.main(sign_subcommand="single-level", input_envelope=inp, output_envelope=outp, key_name=key, key_id=kid,
                  alg=SuitSignAlgorithms(alg), context=vkeys.key_dir(), sign_script=s, kms_script=k,
                  already_signed_action=SignatureAlreadyPresentActions(action))


def blocks_of(data):
    """-> (list of raw auth elements after the digest, auth Item, wrapper value bytes)"""
    env, raw = impl.envelope_members(data)
    v = env.get(2).value
    a = refcbor.decode(v)
    return [x.raw(v) for x in a.items[1:]], a, v


def verify_block(data, block_raw, key, alg, kid=KID):
    """-> None or text"""
    env, raw = impl.envelope_members(data)
    v = env.get(2).value
    a = refcbor.decode(v)
    digest_bstr = a.items[0]
    try:
        b = refcbor.decode(block_raw)
        t = refcbor.decode(b.value)
        prot, unprot, payload, sig = t.items[0].items
    except Exception as e:
        return f"block structure: {e}"
    if t.kind != "tag" or t.value != 18:
        return "block is not tag 18"
    want = enc({1: refcose.ALG_BY_NAME[alg], 4: enc(kid)})
    if prot.value != want:
        return f"protected header {prot.value.hex()} != {want.hex()} (alg {alg}, key id {kid})"
    return refcose.verify(refcose.ALG_BY_NAME[alg], vkeys.private_key(key).public_key(), sig.value, refcose.sig_structure(prot.value, digest_bstr.value))


_BASE = {}


def base_envelopes():
    """unsigned, and signed once by key A (ed25519_b)."""
    if not _BASE:
        d = gen.minimal(man={"suit-manifest-component-id": ["INSTLD_MFST", {"RFC4122_UUID": {"namespace": "n", "name": "c"}}]},
                        env={"suit-integrated-payloads": {"#p": "010203"}})
        u = impl.tool_create(d)
        with fresh_dir("c09b") as dd:
            i, o = os.path.join(dd, "i"), os.path.join(dd, "o")
            open(i, "wb").write(u)
            sign_main(i, o, "ed25519_b", "eddsa", "error", kid=77)
            s = open(o, "rb").read()
        _BASE["unsigned"], _BASE["signed"] = u, s
    return _BASE


# -- single level product ----------------------------------------------------------------------------

def single_cases(tier):
    out = []
    for i, (inp, act, alg, kt) in enumerate(itertools.product(("unsigned", "signed"), ACTIONS, ALGS, KEYT)):
        if (alg, kt) in SKIP_PAIRS:
            continue
        out.append({"input": inp, "action": act, "alg": alg, "key": kt, "i": i})
    return out


def expect_single(signed: bool, action, alg, key):
    """-> 'refuse' | 'unchanged' | 'append' | 'replace'"""
    match = (alg, key) in MATCH
    if signed and action == "error":
        return "refuse"
    if signed and action == "skip":
        return "unchanged"
    if not match:
        return "refuse"
    return "replace" if (signed and action == "remove-old") else "append"


def run_single(case, agg):
    b = base_envelopes()[case["input"]]
    key = h8("c09s", {k: case[k] for k in ("input", "action", "alg", "key")})
    label = f"input={case['input']} action={case['action']} alg={case['alg']} key-type={case['key']}"
    exp = expect_single(case["input"] == "signed", case["action"], case["alg"], case["key"])
    with fresh_dir("c09") as d:
        i, o = os.path.join(d, "in.suit"), os.path.join(d, "out.suit")
        open(i, "wb").write(b)
        pre = case["i"] % 3 == 1          # the output path already holds (longer) content, e.g. from an earlier build
        if pre:
            impl.prefill(o)
        try:
            if seed_slice(case["i"], 37):
                s, k = scripts()
                rc, so, se = impl.cli(["sign", "single-level", "--input-envelope", i, "--output-envelope", o, "--key-name", case["key"],
                                       "--key-id", hex(KID), "--alg", case["alg"], "--context", vkeys.key_dir(), "--sign-script", s,
                                       "--kms-script", k, "--already-signed-action", case["action"]], d)
                if rc != 0:
                    raise RuntimeError(f"cli rc={rc}")
            else:
                sign_main(i, o, case["key"], case["alg"], case["action"])
        except Exception as e:
            if exp == "refuse":
                if pre and (not os.path.exists(o) or open(o, "rb").read() != impl.JUNK):
                    agg.viol("C09:single/refusal-touched-output", f"{label}: refused ({type(e).__name__}) but the file that existed at the output path was modified or removed")
                elif not pre and os.path.exists(o):
                    agg.viol("C09:single/refusal-left-output", f"{label}: refused ({type(e).__name__}) but an output file exists")
                else:
                    agg.rej(key, f"refused:{type(e).__name__}", nontrivial=True)
            else:
                agg.viol(f"C09:single/unexpected-refusal/{exp}", f"{label}: expected {exp}, got {type(e).__name__}: {str(e)[:200]}")
            return
        out = open(o, "rb").read() if os.path.exists(o) else None
    r = judge_single(b, out, exp, case["key"], case["alg"])
    if r:
        agg.viol(f"C09:single/{r[0]}", f"{label}: {r[1]}")
    else:
        agg.ok(key, f"ok:{exp}", sample={"input": case["input"], "action": case["action"], "alg": case["alg"], "key": case["key"], "outcome": exp})


def judge_single(b, out, exp, key, alg):
    if exp == "refuse":
        return "should-refuse", "the command completed" + (" and wrote an output" if out else "")
    if out is None:
        return "no-output", "no output file"
    if exp == "unchanged":
        return None if out == b else ("skip-modified", "skip did not return the envelope unchanged")
    e1, r1 = impl.envelope_members(b)
    e2, r2 = impl.envelope_members(out)
    for k in r1:
        if k != 2 and r1[k] != r2.get(k):
            return "member-changed", f"member {k!r} not byte-identical"
    ib, _, _ = blocks_of(b)
    ob, _, _ = blocks_of(out)
    want_n = len(ib) + 1 if exp == "append" else 1
    if len(ob) != want_n:
        return ("remove-old-kept-old" if exp == "replace" else "signature-count"), f"{len(ob)} signatures in the output, expected {want_n}"
    if exp == "append" and ob[:-1] != ib:
        return "existing-block-changed", "existing authentication blocks changed"
    # (that the remaining block is the NEW one follows from its verification under the new key / key id below; with a
    #  deterministic algorithm and the same key the new block is legitimately byte-identical to the old one)
    bad = verify_block(out, ob[-1], key, alg)
    if bad:
        return "signature", bad
    return None


# -- policy machine (BFS) ----------------------------------------------------------------------------

OPS = [(a, alg, k) for a in ACTIONS for (alg, k) in sorted(MATCH)] + \
      [(a, alg, k) for a in ACTIONS for (alg, k) in (("eddsa", "p256"), ("es-256", "p384"), ("es-384", "ed25519"), ("es-521", "p256"), ("hash-eddsa", "p521"))]


def machine_init():
    # two ways to drive the machine: a fresh signer per operation (cmd_sign.main) and ONE signer object reused for the
    # whole history (library use; exposes state leaking from one sign_envelope call into the next)
    # ... each from the unsigned envelope and from the envelope already signed by key A (a non-initial state)
    return [((m,), ("signers", m, ())) for m in ("main", "reuse", "main+signed", "reuse+signed")]


def machine_step(hist, agg, expand):
    """hist = tuple of op indices; the model state (signers present) is recomputed along the way and every transition
    is executed on the real envelope."""
    hist = tuplify(hist)
    mode, hist = hist[0], hist[1:]
    cur = base_envelopes()["signed" if mode.endswith("+signed") else "unsigned"]
    model = [("eddsa", "ed25519_b", 77)] if mode.endswith("+signed") else []          # list of (alg, key, key id)
    signer = None
    if mode.startswith("reuse"):
        from suit_generator import cmd_sign
        from suit_generator.suit_sign_script_base import SuitSignAlgorithms, SignatureAlreadyPresentActions
        signer = cmd_sign._import_signer(scripts()[0])
    with fresh_dir("c09m") as d:
        for step, oi in enumerate(hist):
            act, alg, kt = OPS[oi]
            exp = expect_single(bool(model), act, alg, kt)
            i, o = os.path.join(d, f"{step}.in"), os.path.join(d, f"{step}.out")
            open(i, "wb").write(cur)
            label = f"history[{mode}] {[OPS[x] for x in hist[:step + 1]]} (signers before: {model})"
            try:
                if signer is None:
                    sign_main(i, o, kt, alg, act)
                else:
                    env = cmd_sign.load_envelope(i)
                    res = signer.sign_envelope(env, kt, KID, SuitSignAlgorithms(alg), vkeys.key_dir(), scripts()[1], SignatureAlreadyPresentActions(act))
                    cmd_sign.save_envelope(o, res)
                out = open(o, "rb").read()
            except Exception as e:
                if exp != "refuse":
                    agg.viol(f"C09:machine/unexpected-refusal/{exp}", f"{label}: {type(e).__name__}: {str(e)[:200]}")
                    return []
                if os.path.exists(o):
                    agg.viol("C09:machine/refusal-left-output", f"{label}: refused but wrote output")
                    return []
                if signer is not None and step < len(hist) - 1:
                    continue
                if step == len(hist) - 1:
                    agg.rej(h8("c09m", mode, hist), "refused", nontrivial=True)
                    return []     # terminal: nothing new to explore from a refusal (state unchanged)
                continue
            r = judge_single(cur, out, exp, kt, alg)
            if r:
                agg.viol(f"C09:machine/{r[0]}", f"{label}: {r[1]}")
                return []
            if exp == "append":
                model = model + [(alg, kt, KID)]
            elif exp == "replace":
                model = [(alg, kt, KID)]
            cur = out
            # conformance: number of blocks equals the model, each verifies under its modelled key
            ob, _, _ = blocks_of(cur)
            if len(ob) != len(model):
                agg.viol("C09:machine/state-divergence", f"{label}: envelope carries {len(ob)} signatures, model says {len(model)}")
                return []
            for blk, (a2, k2, kid2) in zip(ob, model):
                bad = verify_block(cur, blk, k2, a2, kid2)
                if bad:
                    agg.viol("C09:machine/state-divergence", f"{label}: block does not verify under modelled signer {(a2, k2)}: {bad}")
                    return []
    agg.ok(h8("c09m", mode, hist), f"ok:{mode}:signers={len(model)}", sample={"mode": mode, "history": [OPS[x] for x in hist], "signers": model} if len(hist) == 2 else None)
    if not expand:
        return []
    succ = []
    for oi, (act, alg, kt) in enumerate(OPS):
        exp = expect_single(bool(model), act, alg, kt)
        nm = model + [(alg, kt, KID)] if exp == "append" else [(alg, kt, KID)] if exp == "replace" else model
        if mode.startswith("reuse"):
            # a reused object may carry hidden state: histories are NOT merged by model state (every sequence is run)
            succ.append((f"{act}/{alg}/{kt}", (mode,) + hist + (oi,), h8("reuse-hist", mode, hist, oi)))
        else:
            succ.append((f"{act}/{alg}/{kt}", (mode,) + hist + (oi,), h8("mstate", mode, nm) if exp != "refuse" else h8("refusal", mode, hist, oi)))
    return succ


# -- recursive ---------------------------------------------------------------------------------------

def shapes():
    """rooted trees, depth<=3, <=2 children, <=5 nodes, as nested tuples (canonical order)."""
    def gen_t(depth):
        if depth == 1:
            return [()]
        sub = gen_t(depth - 1)
        out = [()]
        for a in sub:
            out.append((a,))
        for a, b in itertools.combinations_with_replacement(sub, 2):
            out.append((a, b))
        return out

    def size(t):
        return 1 + sum(size(c) for c in t)
    seen, res = set(), []
    for t in gen_t(3):
        if size(t) <= 5 and t not in seen:
            seen.add(t)
            res.append(t)
    return res


SHAPES = shapes()
FAULTS = ["none", "absent", "raw-payload", "bstr-not-tag", "undecodable"]


def recursive_scenario(shape):
    def sc(ch, agg):
        counter = itertools.count()

        def node(t, path, root, parent_alg, parent_ctx="main", parent_kms="main"):
            n = next(counter)
            cfg = {"id": n, "path": path, "children": []}
            cfg["mode"] = ch.choose(f"{path}.mode", ["sign", "omit+keys", "omit-nokeys"] + ([] if root else ["unnamed"]))
            cfg["fault"] = "none" if root else ch.choose(f"{path}.fault", FAULTS)
            cfg["input"] = ch.choose(f"{path}.input", ["unsigned", "signed"])
            if root:
                cfg["scripts"] = ch.choose("scripts-from", ["configuration", "environment", "zephyr-base",
                                                            "configuration+decoy-environment", "configuration+decoy-zephyr-base"])
                cfg["ctx"] = "main"
                cfg["kms"] = "main"
            elif cfg["mode"] != "unnamed":
                # a node may name its own KMS context (another key directory in which the same key names hold other keys);
                # without one it inherits its parent's
                own = ch.choose(f"{path}.context", ["inherit", "own", "own-json"])
                cfg["ctx_cfg"] = own
                cfg["ctx"] = parent_ctx if own == "inherit" else "alt"
                # ... and its own KMS script (here: one whose key store is the alternative directory whatever the
                # context says); without one it inherits its parent's script
                cfg["kms_cfg"] = ch.choose(f"{path}.kms-script", ["inherit", "own"])
                cfg["kms"] = "alt" if cfg["kms_cfg"] == "own" else parent_kms
                if cfg["kms"] == "alt":
                    cfg["ctx"] = "alt"
            if cfg["mode"] != "unnamed":
                cfg["alg_cfg"] = ch.choose(f"{path}.alg", ["inherit", "es-256", "eddsa"])
                cfg["alg"] = parent_alg if cfg["alg_cfg"] == "inherit" else cfg["alg_cfg"]
                cfg["mismatch"] = ch.choose(f"{path}.mismatch", [False, True])
                cfg["action"] = ch.choose(f"{path}.action", [None, "skip", "remove-old", "error"])
            else:
                cfg["alg"] = parent_alg
            for i, c in enumerate(t):
                # below an unnamed (or faulty) node nothing is configured; the subtree still exists in the input
                if cfg["mode"] == "unnamed" or cfg["fault"] != "none":
                    cfg["children"].append(plain(c, f"{path}/d{i}"))
                else:
                    cfg["children"].append(node(c, f"{path}/d{i}", False, cfg["alg"], cfg.get("ctx", parent_ctx), cfg.get("kms", parent_kms)))
            return cfg

        def plain(t, path):
            n = next(counter)
            return {"id": n, "path": path, "mode": "unnamed", "fault": "none", "input": "unsigned", "alg": "eddsa",
                    "children": [plain(c, f"{path}/d{i}") for i, c in enumerate(t)]}

        tree = node(shape, "root", True, "eddsa")
        run_recursive(tree, ch, agg)
    return sc


def node_key(cfg):
    right = "p256" if cfg["alg"] == "es-256" else "ed25519"
    wrong = "ed25519" if cfg["alg"] == "es-256" else "p256"
    # every other node's key has a dot in its name (a sibling "<kind>.pem" holding another key exists in both stores)
    return f"{wrong if cfg.get('mismatch') else right}{'.' if cfg['id'] % 2 else '_'}n{cfg['id']}"


def node_identity(cfg):
    """the harness key that must verify this node's signature: the key of that NAME in the node's effective context."""
    return node_key(cfg).replace(".", "_") + ("_alt" if cfg.get("ctx") == "alt" else "")


def node_kid(cfg):
    return 0 if cfg["id"] == 0 else 0x100 + cfg["id"]        # the root uses the legal boundary key id 0


def build_input(cfg, d):
    """-> bytes of the input envelope of this node (children embedded), or a faulty member value."""
    if cfg["fault"] == "raw-payload":
        return b"\x01\x02\x03"
    if cfg["fault"] == "bstr-not-tag":
        return enc(b"not an envelope")
    if cfg["fault"] == "undecodable":
        return b"\xff\xff"
    deps = {}
    for i, c in enumerate(cfg["children"]):
        if c["fault"] == "absent":
            continue
        p = os.path.join(d, f"n{c['id']}.suit")
        open(p, "wb").write(build_input(c, d))
        deps[f"#d{i}"] = p
    desc = gen.minimal(man={"suit-manifest-sequence-number": cfg["id"] + 1, "suit-reference-uri": cfg["path"]},
                       env={"suit-integrated-payloads": {"#fw": "00" + f"{cfg['id']:02x}"}, **({"suit-integrated-dependencies": deps} if deps else {})})
    b = impl.tool_create(desc)
    if cfg["input"] == "signed":
        i, o = os.path.join(d, f"pre{cfg['id']}.in"), os.path.join(d, f"pre{cfg['id']}.out")
        open(i, "wb").write(b)
        sign_main(i, o, "ed25519_b", "eddsa", "error", kid=77)
        b = open(o, "rb").read()
    return b


ALT_KMS = '''"""a second KMS: the stock file-based one, with its own key store"""
import importlib.util
_spec = importlib.util.spec_from_file_location("svmc_stock_kms", %r)
_m = importlib.util.module_from_spec(_spec)
_spec.loader.exec_module(_m)


class SuitKMS(_m.SuitKMS):
    def init_kms(self, context):
        super().init_kms(%r)


def suit_kms_factory():
    return SuitKMS()
'''
DECOY_KMS = '''from suit_generator.suit_kms_base import SuitKMSBase


class SuitKMS(SuitKMSBase):
    def init_kms(self, context):
        raise RuntimeError("the KMS script named by the ENVIRONMENT was used although the configuration names one")

    def encrypt(self, *a, **k):
        raise RuntimeError("decoy")

    def sign(self, *a, **k):
        raise RuntimeError("decoy")


def suit_kms_factory():
    return SuitKMS()
'''
DECOY_SIGN = '''def suit_signer_factory():
    raise RuntimeError("the sign script named by the ENVIRONMENT was used although the configuration names one")
'''


def config_json(cfg, root=True, d=None):
    c = {}
    s, k = scripts()
    if root:
        c["context"] = vkeys.key_dir()
        if cfg.get("scripts", "configuration").startswith("configuration"):
            c["sign-script"], c["kms-script"] = s, k
    elif cfg.get("ctx_cfg") == "own":
        c["context"] = vkeys.key_dir_alt()
    elif cfg.get("ctx_cfg") == "own-json":
        c["context"] = json.dumps({"keys_directory": vkeys.key_dir_alt()})
    if cfg.get("kms_cfg") == "own":
        c["kms-script"] = os.path.join(d, "alt", "basic_kms.py") if d else "<scratch>/alt/basic_kms.py"
    if cfg["mode"] in ("omit+keys", "omit-nokeys"):
        c["omit-signing"] = True
    if cfg["mode"] != "omit-nokeys":
        c["key-name"] = node_key(cfg)
        # every spelling int(text, 0) understands, one per node: decimal, 0X.., 0o.., 0b.., 0x..
        c["key-id"] = [str, lambda v: "0X%X" % v, oct, bin, hex][(cfg["id"] + 4) % 5 if cfg["id"] else 0](node_kid(cfg))
    if cfg.get("alg_cfg", "inherit") != "inherit":
        c["alg"] = cfg["alg_cfg"]
    if cfg.get("action"):
        c["already-signed-action"] = cfg["action"]
    deps = {}
    for i, ch_ in enumerate(cfg["children"]):
        if ch_["mode"] != "unnamed":
            deps[f"#d{i}"] = config_json(ch_, False, d)
    if deps:
        c["dependencies"] = deps
    return c


def expect_tree(cfg):
    """reference model -> 'refuse' or a dict id -> expectation ('unchanged' | 'append' | 'replace')."""
    out = {}

    def walk(c, named):
        if not named:
            return
        if c["fault"] != "none":
            raise _Refuse(f"named dependency {c['path']} is {c['fault']}")
        for ch_ in c["children"]:
            walk(ch_, ch_["mode"] != "unnamed")
        if c["mode"] != "sign":
            out[c["id"]] = "unchanged"
            return
        signed = c["input"] == "signed"
        e = expect_single(signed, c.get("action") or "error", c["alg"], "p256" if node_key(c).startswith("p256") else "ed25519")
        if e == "refuse":
            raise _Refuse(f"{c['path']}: sign refused (input {'signed' if signed else 'unsigned'}, action {c.get('action')}, mismatch {c.get('mismatch')})")
        out[c["id"]] = e
    try:
        walk(cfg, True)
    except _Refuse as r:
        return "refuse", str(r)
    return out, None


class _Refuse(Exception):
    pass


def run_recursive(tree, ch, agg):
    from suit_generator import cmd_sign
    key = h8("c09r", ch.choices, str(tree))
    label = f"recursive {ch.labels() or 'default'}"
    exp, why = expect_tree(tree)
    with fresh_dir("c09r") as d:
        try:
            b = build_input(tree, d)
        except Exception as e:
            raise RuntimeError(f"harness: cannot build input tree: {type(e).__name__}: {e}")
        i, o, cf = os.path.join(d, "in.suit"), os.path.join(d, "out.suit"), os.path.join(d, "cfg.json")
        open(i, "wb").write(b)
        json.dump(config_json(tree, True, d), open(cf, "w"))
        pre = key % 3 == 1
        if pre:
            impl.prefill(o)
        os.makedirs(os.path.join(d, "alt"), exist_ok=True)
        with open(os.path.join(d, "alt", "basic_kms.py"), "w") as fh:       # same file name as the stock script, another directory
            fh.write(ALT_KMS % (scripts()[1], vkeys.key_dir_alt()))
        saved = {k: os.environ.get(k) for k in ("NCS_SUIT_SIGN_SCRIPT", "NCS_SUIT_KMS_SCRIPT", "ZEPHYR_BASE")}
        if tree.get("scripts") == "environment":
            os.environ["NCS_SUIT_SIGN_SCRIPT"], os.environ["NCS_SUIT_KMS_SCRIPT"] = scripts()
        elif tree.get("scripts") in ("configuration+decoy-environment", "configuration+decoy-zephyr-base"):
            # the configuration names the scripts; the environment ALSO names some (decoys that refuse to work):
            # what the configuration says - on the node or inherited from an ancestor - wins
            zb = os.path.join(d, "decoy", "zephyr")
            nd = os.path.join(d, "decoy", "modules", "lib", "suit-generator", "ncs")
            os.makedirs(zb)
            os.makedirs(nd)
            open(os.path.join(nd, "basic_kms.py"), "w").write(DECOY_KMS)
            open(os.path.join(nd, "sign_script.py"), "w").write(DECOY_SIGN)
            if tree["scripts"].endswith("environment"):
                os.environ["NCS_SUIT_SIGN_SCRIPT"] = os.path.join(nd, "sign_script.py")
                os.environ["NCS_SUIT_KMS_SCRIPT"] = os.path.join(nd, "basic_kms.py")
                os.environ.pop("ZEPHYR_BASE", None)
            else:
                os.environ.pop("NCS_SUIT_SIGN_SCRIPT", None)
                os.environ.pop("NCS_SUIT_KMS_SCRIPT", None)
                os.environ["ZEPHYR_BASE"] = zb
        elif tree.get("scripts") == "zephyr-base":
            # an SDK tree: $ZEPHYR_BASE/../modules/lib/suit-generator/ncs/{sign_script,basic_kms}.py ; the variable is set now,
            # long after the tool's modules were imported
            zb = os.path.join(d, "sdk", "zephyr")
            nd = os.path.join(d, "sdk", "modules", "lib", "suit-generator", "ncs")
            os.makedirs(zb)
            os.makedirs(nd)
            for src in scripts():
                os.symlink(src, os.path.join(nd, os.path.basename(src)))
            os.environ.pop("NCS_SUIT_SIGN_SCRIPT", None)
            os.environ.pop("NCS_SUIT_KMS_SCRIPT", None)
            os.environ["ZEPHYR_BASE"] = zb
        try:
            try:
                if key % 5 == 2:
                    # library use: ONE loaded configuration object serves two signing runs (a retry, several builds); the
                    # second run is the one judged
                    cfgd = json.load(open(cf))
                    res = None
                    for _ in range(2):
                        res = cmd_sign.RecursiveSigner(cmd_sign.load_envelope(i), cfgd, i).recursive_sign()
                    label += " [library: second run with the same configuration object]"
                    if res is None:
                        raise ValueError("no envelope returned")
                    cmd_sign.save_envelope(o, res)
                else:
                    cmd_sign.main(sign_subcommand="recursive", input_envelope=i, output_envelope=o, configuration=cf)
            finally:
                for k, v in saved.items():
                    if v is None:
                        os.environ.pop(k, None)
                    else:
                        os.environ[k] = v
        except Exception as e:
            if exp == "refuse":
                if pre and (not os.path.exists(o) or open(o, "rb").read() != impl.JUNK):
                    agg.viol("C09:recursive/refusal-touched-output", f"{label}: refused but the file that existed at the output path was modified or removed")
                elif not pre and os.path.exists(o):
                    agg.viol("C09:recursive/refusal-left-output", f"{label}: refused but wrote output")
                else:
                    agg.rej(key, "refused", nontrivial=True)
            else:
                agg.viol(f"C09:recursive/unexpected-failure/{type(e).__name__}@{impl.site_of(e)}", f"{label}: {type(e).__name__}: {str(e)[:200]}",
                         artefacts={"config": config_json(tree)})
            return
        if exp == "refuse":
            agg.viol("C09:recursive/should-refuse", f"{label}: {why}, but the command completed")
            return
        out = open(o, "rb").read()
    problems = []

    def compare(c, ib, ob, named):
        try:
            e1, r1 = impl.envelope_members(ib)
            e2, r2 = impl.envelope_members(ob)
        except refcbor.CborError as e:
            problems.append(("output-undecodable", f"{c['path']}: {e}"))
            return
        if not named:
            if ib != ob:
                problems.append(("unnamed-changed", f"{c['path']}: a member not named in the configuration changed"))
            return
        if r1.get(3) != r2.get(3):
            problems.append(("manifest-changed", f"{c['path']}: manifest not byte-identical"))
        if list(r1) != list(r2):
            problems.append(("members-changed", f"{c['path']}: envelope keys {list(r1)} became {list(r2)}"))
        for k in r1:
            if isinstance(k, str) and not any(k == f"#d{i}" and cc["mode"] != "unnamed" for i, cc in enumerate(c["children"])):
                if r1[k] != r2.get(k):
                    problems.append(("unnamed-changed", f"{c['path']}: member {k!r} changed"))
        ibk, _, _ = blocks_of(ib)
        obk, _, _ = blocks_of(ob)
        e = exp[c["id"]]
        if e == "unchanged":
            if r1.get(2) != r2.get(2):
                problems.append(("omit-signing-changed" if c["mode"] != "sign" else "skip-modified", f"{c['path']}: authentication wrapper changed although {c['mode']}/skip"))
        else:
            want_n = len(ibk) + 1 if e == "append" else 1
            if len(obk) != want_n:
                problems.append(("signature-count", f"{c['path']}: {len(obk)} signatures, expected {want_n}"))
            else:
                bad = verify_block(ob, obk[-1], node_identity(c), c["alg"], node_kid(c))
                if bad:
                    problems.append(("wrong-signer", f"{c['path']}: signature does not verify under this node's own key {node_identity(c)} (context {c.get('ctx')}) / key id {node_kid(c)}: {bad}"))
        for idx, cc in enumerate(c["children"]):
            n = f"#d{idx}"
            if cc["fault"] == "absent":
                continue
            if e2.get(n) is None:
                problems.append(("dependency-lost", f"{c['path']}: {n} not re-embedded under the same name"))
                continue
            if cc["fault"] != "none":
                continue
            compare(cc, e1.get(n).value, e2.get(n).value, cc["mode"] != "unnamed")
    compare(tree, b, out, True)
    if problems:
        agg.viol(f"C09:recursive/{problems[0][0]}", f"{label}: " + "; ".join(p[1] for p in problems[:3]), artefacts={"config": config_json(tree)})
    else:
        agg.ok(key, f"ok:signed={sum(1 for v in exp.values() if v != 'unchanged')}",
               sample={"shape": str(tree_shape(tree)), "choices": ch.labels(), "expected": {str(k): v for k, v in exp.items()}} if len(ch.labels()) == 1 else None)


def tree_shape(c):
    return tuple(tree_shape(x) for x in c["children"])


def plan(tier):
    b = 2 if tier == "quick" else 3
    st = [
        CaseStage("single-level", lambda: single_cases(tier), run_single, rule="input x action x algorithm x key type"),
        BfsStage("policy-machine", machine_init, machine_step, max_depth=2 if tier == "quick" else 3,
                 rule="sign operation histories; state = signers present (reference model), every transition executed on the real envelope"),
    ]
    for i, sh in enumerate(SHAPES):
        st.append(ExploreStage(f"recursive:shape{i}", recursive_scenario(sh), bound=b, rule=f"tree shape {sh}, per-node configuration points"))
    return st
