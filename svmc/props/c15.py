"""C15 - generated key pairs match and convert emits the exact public key."""
from __future__ import annotations

import itertools
import json
import os
import re

from cryptography.hazmat.primitives import serialization
from cryptography.hazmat.primitives.asymmetric import ec, ed25519, ed448

from .. import core
from ..core import CaseStage, fresh_dir, h8, seed_slice

LEVEL = "exploration"
RULE = ("keys: full product 5 types x 2 encodings x 2 private formats x 2 public formats (x3 repetitions): either both "
        "files exist, load with cryptography's loaders, are of the requested type and belong together, or a "
        "GeneratorError is raised and no file is left. convert: real keys only - private scalars d = 1..N on the three "
        "NIST curves plus a committed table of scalars whose X and/or Y has 1, 2 or 3 leading zero bytes (found by the same "
        "enumeration), Ed25519/Ed448 from seeds 0..255; the C file is tokenised, the 0x.. literals between the braces "
        "must be exactly the fixed-width big-endian X||Y (64/96/132 bytes) or the raw 32/57-byte key, no trailing comma, "
        "length variable = sizeof(array); formatting product columns x indentation x tab x no-length x no-const x custom "
        "length type on 3 keys per type must change whitespace only. distinct = distinct keys / option tuples")
ASSUMPTIONS = ["cryptography's key loaders and public_numbers()", "keys for convert are built by the harness with ec.derive_private_key"]
BOUNDS = {"quick": "N = 5000 scalars per curve + table; 256 seeds per Ed curve; 40x3 key generations; 288 formatting tuples x 15 keys",
          "thorough": "N = 200000 scalars per curve + table; PEM forms x 8 column counts"}

TYPES = ["secp256r1", "secp384r1", "secp521r1", "ed25519", "ed448"]
CURVES = {"p256": (ec.SECP256R1(), 32), "p384": (ec.SECP384R1(), 48), "p521": (ec.SECP521R1(), 66)}
TYPE_CLASS = {"secp256r1": (ec.EllipticCurvePrivateKey, 256), "secp384r1": (ec.EllipticCurvePrivateKey, 384),
              "secp521r1": (ec.EllipticCurvePrivateKey, 521), "ed25519": (ed25519.Ed25519PrivateKey, None), "ed448": (ed448.Ed448PrivateKey, None)}


PREFIXES = ["k", "device.v2", "sub.dir/app.release.signing"]       # the output prefix is a free-form path prefix


# -- keys --------------------------------------------------------------------------------------------

def keys_cases(tier):
    out = []
    for i, (t, e, pf, pubf, rep) in enumerate(itertools.product(TYPES, ("pem", "der"), ("pkcs8", "pkcs1"), ("default", "pkcs1"), range(3))):
        out.append({"type": t, "enc": e, "priv": pf, "pub": pubf, "rep": rep, "i": i, "prefix": PREFIXES[rep]})
    return out


def run_keys(case, agg):
    from suit_generator import cmd_keys
    from suit_generator.exceptions import GeneratorError
    key = h8("c15k", case)
    label = f"keys type={case['type']} encoding={case['enc']} private={case['priv']} public={case['pub']}"
    with fresh_dir("c15k") as d:
        prefix = os.path.join(d, case.get("prefix", "k"))
        os.makedirs(os.path.dirname(prefix), exist_ok=True)
        try:
            if seed_slice(case["i"], 17):
                from .. import impl
                rc, so, se = impl.cli(["keys", "--output-file", prefix, "--type", case["type"], "--encoding", case["enc"],
                                       "--private-format", case["priv"], "--public-format", case["pub"]], d)
                if rc != 0:
                    if "Invalid key generator parameters combination" in se or "GeneratorError" in se or rc == 1:
                        raise GeneratorError(se[-200:])
                    raise RuntimeError(f"cli rc={rc}: {se[-300:]}")
            else:
                cmd_keys.main(output_file=prefix, type=case["type"], encoding=case["enc"], private_format=case["priv"],
                              public_format=case["pub"], encryption="none")
        except GeneratorError as e:
            left = [os.path.join(r, f) for r, _, fs in os.walk(d) for f in fs if not f.endswith(".log")]
            if left:
                agg.viol("C15:keys/error-left-files", f"{label}: reported an error but left {left}")
            elif "Traceback" in str(e) and "GeneratorError" not in str(e) and "Invalid key generator" not in str(e):
                agg.viol("C15:keys/cli-crash", f"{label}: {str(e)[-300:]}")
            else:
                agg.rej(key, "refused:GeneratorError", nontrivial=True)
            return
        except Exception as e:
            agg.viol(f"C15:keys/failed/{type(e).__name__}", f"{label}: {type(e).__name__}: {str(e)[:200]}")
            return
        pp, pu = f"{prefix}_priv.{case['enc']}", f"{prefix}_pub.{case['enc']}"
        if not (os.path.exists(pp) and os.path.exists(pu)):
            agg.viol("C15:keys/missing-file", f"{label} prefix={case.get('prefix')!r}: completed without writing <prefix>_priv/_pub.<encoding> (found {[f for r, _, fs in os.walk(d) for f in fs]})")
            return
        try:
            pb, ub = open(pp, "rb").read(), open(pu, "rb").read()
            if case["enc"] == "pem":
                priv = serialization.load_pem_private_key(pb, None)
                pub = serialization.load_pem_public_key(ub)
            else:
                priv = serialization.load_der_private_key(pb, None)
                pub = serialization.load_der_public_key(ub)
        except Exception as e:
            agg.viol("C15:keys/unloadable", f"{label}: files do not load with standard tooling: {type(e).__name__}: {e}")
            return
    cls, bits = TYPE_CLASS[case["type"]]
    if not isinstance(priv, cls) or (bits and priv.key_size != bits):
        agg.viol("C15:keys/wrong-type", f"{label}: private key is {type(priv).__name__}{getattr(priv, 'key_size', '')}")
        return
    a = priv.public_key().public_bytes(serialization.Encoding.DER, serialization.PublicFormat.SubjectPublicKeyInfo)
    b = pub.public_bytes(serialization.Encoding.DER, serialization.PublicFormat.SubjectPublicKeyInfo)
    if a != b:
        agg.viol("C15:keys/pair-mismatch", f"{label}: the public file is not the public half of the private file")
        return
    agg.ok(key, "ok:pair", sample={k: case[k] for k in ("type", "enc", "priv", "pub")} if case["rep"] == 0 and case["enc"] == "der" else None)


def rekey_cases(tier):
    return [{"first": a, "second": b, "enc": e} for a, b in (("secp521r1", "ed25519"), ("secp384r1", "secp256r1"), ("ed448", "ed25519"), ("ed25519", "secp521r1"))
            for e in ("pem", "der")]


def run_rekey(case, agg):
    """the same output prefix used twice: the files of the second run must be exactly the second key pair."""
    from suit_generator import cmd_keys
    with fresh_dir("c15r") as d:
        prefix = os.path.join(d, "k")
        try:
            for t in (case["first"], case["second"]):
                cmd_keys.main(output_file=prefix, type=t, encoding=case["enc"], private_format="pkcs8", public_format="default", encryption="none")
            pb, ub = open(f"{prefix}_priv.{case['enc']}", "rb").read(), open(f"{prefix}_pub.{case['enc']}", "rb").read()
            if case["enc"] == "pem":
                priv, pub = serialization.load_pem_private_key(pb, None), serialization.load_pem_public_key(ub)
                clean = pb.count(b"-----BEGIN") == 1 and pb.rstrip().endswith(b"-----") and ub.count(b"-----BEGIN") == 1 and ub.rstrip().endswith(b"-----")
            else:
                priv, pub = serialization.load_der_private_key(pb, None), serialization.load_der_public_key(ub)
                clean = (priv.private_bytes(serialization.Encoding.DER, serialization.PrivateFormat.PKCS8, serialization.NoEncryption()) == pb
                         and pub.public_bytes(serialization.Encoding.DER, serialization.PublicFormat.SubjectPublicKeyInfo) == ub)
        except Exception as e:
            agg.viol("C15:keys/rewrite-unloadable", f"{case}: after the second run the files do not load: {type(e).__name__}: {str(e)[:200]}")
            return
    cls, bits = TYPE_CLASS[case["second"]]
    if not isinstance(priv, cls) or (bits and priv.key_size != bits):
        agg.viol("C15:keys/rewrite-wrong-type", f"{case}: files hold a {type(priv).__name__}")
    elif not clean:
        agg.viol("C15:keys/rewrite-trailing-data", f"{case}: the files of the second run carry left-over bytes of the first")
    else:
        agg.ok(h8("c15r", case), "ok:rewrite", sample=case if case["enc"] == "der" and case["first"] == "secp521r1" else None)


# -- convert -----------------------------------------------------------------------------------------

DEFAULTS = dict(array_type="uint8_t", array_name="key_buf", length_type="size_t", length_name="key_len", columns_count=8, header_file="",
                footer_file="", indentation_count=4, indentation_tab=False, no_length=False, no_const=False)


def parse_c(text, array_name="key_buf", length_name="key_len"):
    """-> (bytes of the array, problems list, normalised token list)"""
    problems = []
    m = re.search(r"\b" + re.escape(array_name) + r"\s*\[\s*\]\s*=\s*\{(.*?)\}\s*;", text, re.S)
    if not m:
        return None, ["array definition not found"], []
    body = m.group(1)
    toks = re.findall(r"0[xX][0-9a-fA-F]+|,|[^\s,]+", body)
    vals = []
    expect_val = True
    for t in toks:
        if t == ",":
            if expect_val:
                problems.append("misplaced comma")
            expect_val = True
        elif re.fullmatch(r"0[xX][0-9a-fA-F]{1,2}", t):
            if not expect_val:
                problems.append("missing comma between literals")
            vals.append(int(t, 16))
            expect_val = False
        else:
            problems.append(f"unexpected token {t!r} in the array")
    if toks and toks[-1] == ",":
        problems.append("trailing comma after the last element")
    alltoks = re.findall(r"0[xX][0-9a-fA-F]+|\w+|[^\s\w]", text)
    return bytes(vals), problems, alltoks


def expected_public(priv):
    if isinstance(priv, ec.EllipticCurvePrivateKey):
        n = (priv.key_size + 7) // 8
        pn = priv.public_key().public_numbers()
        return pn.x.to_bytes(n, "big") + pn.y.to_bytes(n, "big")
    return priv.public_key().public_bytes(serialization.Encoding.Raw, serialization.PublicFormat.Raw)


def convert(priv, d, **opts):
    from suit_generator import cmd_convert
    inp, out = os.path.join(d, "k.pem"), os.path.join(d, "k.c")
    with open(inp, "wb") as fh:
        fh.write(priv.private_bytes(serialization.Encoding.PEM, serialization.PrivateFormat.PKCS8, serialization.NoEncryption()))
    o = dict(DEFAULTS)
    o.update(opts)
    from .. import impl
    impl.prefill(out)
    cmd_convert.main(input_file=inp, output_file=out, **o)
    with open(out, encoding="utf-8") as fh:
        return fh.read()


# -- one KeyConverter object used repeatedly (library use) -------------------------------------------------
CONV_OPS = ["prepare", "generate", "rewrite-key+prepare", "rewrite-key+generate"]
CONV_KEYS = ["p256", "p521", "ed25519", "ed448", "p384"]


def convobj_cases(tier):
    import itertools
    return [{"ops": list(p), "k": k} for n in (1, 2, 3) for p in itertools.product(range(len(CONV_OPS)), repeat=n) for k in range(2 if tier == "quick" else 5)]


def run_convobj(case, agg):
    """every sequence of up to 3 operations on ONE KeyConverter object: prepare_file_contents / generate_c_file, with
    the key file (same path) replaced by another key before some of them - each result is exactly the public key that
    is in the input file at that moment"""
    from suit_generator.cmd_convert import KeyConverter
    from .. import keys as vkeys
    kinds = CONV_KEYS[case["k"]:] + CONV_KEYS[:case["k"]]
    label = f"one KeyConverter object, operations {[CONV_OPS[i] for i in case['ops']]}, first key {kinds[0]}"
    with fresh_dir("c15o") as d:
        inp, out = os.path.join(d, "k.pem"), os.path.join(d, "k.c")
        cur = 0
        priv = vkeys.private_key(kinds[cur] + "_conv")
        open(inp, "wb").write(priv.private_bytes(serialization.Encoding.PEM, serialization.PrivateFormat.PKCS8, serialization.NoEncryption()))
        try:
            conv = KeyConverter(input_file=inp, output_file=out, **DEFAULTS)
            for n, oi in enumerate(case["ops"]):
                op = CONV_OPS[oi]
                if op.startswith("rewrite-key"):
                    cur += 1
                    priv = vkeys.private_key(kinds[cur % len(kinds)] + "_conv")
                    open(inp, "wb").write(priv.private_bytes(serialization.Encoding.PEM, serialization.PrivateFormat.PKCS8, serialization.NoEncryption()))
                if op.endswith("prepare"):
                    text = conv.prepare_file_contents()
                else:
                    conv.generate_c_file()
                    text = open(out, encoding="utf-8").read()
                got, problems, _ = parse_c(text)
                want = expected_public(priv)
                if got is None or problems:
                    agg.viol("C15:converter-reuse/malformed-c", f"{label}: after operation {n + 1}: {problems[:2]}")
                    return
                if got != want:
                    agg.viol("C15:converter-reuse/array", f"{label}: after operation {n + 1} the array has {len(got)} bytes "
                             f"({got[:8].hex()}...), the public key in the input file has {len(want)} ({want[:8].hex()}...)")
                    return
        except Exception as e:
            agg.viol(f"C15:converter-reuse/failed/{type(e).__name__}", f"{label}: {type(e).__name__}: {str(e)[:200]}")
            return
    agg.ok(h8("c15o", case), f"ok:ops={len(case['ops'])}", sample=case if case["ops"] == [0, 3] and case["k"] == 1 else None)


def scalar_cases(tier):
    n = 5000 if tier == "quick" else 200000
    out = []
    table = json.load(open(os.path.join(os.path.dirname(os.path.dirname(__file__)), "data", "ec_scalars.json")))
    for c in CURVES:
        step = 100 if c != "p521" else 50
        for lo in range(1, n + 1, step):
            out.append({"curve": c, "ds": list(range(lo, min(n + 1, lo + step)))})
        out.append({"curve": c, "ds": [x[0] for x in table[c]], "table": True})
        # the largest scalars as well
    return out


ORD = None


def run_scalars(case, agg):
    curve, nb = CURVES[case["curve"]]
    ok = 0
    with fresh_dir("c15s") as d:
        for dd in case["ds"]:
            priv = ec.derive_private_key(dd, curve)
            want = expected_public(priv)
            try:
                text = convert(priv, d)
            except Exception as e:
                agg.viol(f"C15:convert/failed/{type(e).__name__}", f"{case['curve']} d={dd}: {type(e).__name__}: {e}", case={"curve": case["curve"], "ds": [dd]})
                return
            got, problems, _ = parse_c(text)
            if got is None or problems:
                agg.viol("C15:convert/malformed-c", f"{case['curve']} d={dd}: {problems}", case={"curve": case["curve"], "ds": [dd]})
                return
            if got != want:
                lzx, lzy = nb - (int.from_bytes(want[:nb], 'big').bit_length() + 7) // 8, nb - (int.from_bytes(want[nb:], 'big').bit_length() + 7) // 8
                kind = "short-coordinate" if len(got) < len(want) else "wrong-bytes"
                agg.viol(f"C15:convert/{case['curve']}/{kind}", f"{case['curve']} d={dd}: array has {len(got)} bytes, public key X||Y has {len(want)} "
                         f"(X has {lzx}, Y has {lzy} leading zero bytes); array {got[:8].hex()}.. expected {want[:8].hex()}..", case={"curve": case["curve"], "ds": [dd]})
                return
            if f"sizeof(key_buf)" not in text:
                agg.viol("C15:convert/length-variable", f"{case['curve']} d={dd}: length variable is not sizeof(array)", case={"curve": case["curve"], "ds": [dd]})
                return
            ok += 1
    agg.evaluations += ok
    agg.outcomes["ok:nist-key" + (":table" if case.get("table") else "")] += ok
    agg.notes["__disjoint_distinct__"] += ok
    if case["ds"][0] == 1:
        agg.samples.append({"curve": case["curve"], "scalars": f"{case['ds'][0]}..{case['ds'][-1]}"})


def ed_cases(tier):
    return [{"kind": k, "seeds": list(range(lo, lo + 32))} for k in ("ed25519", "ed448") for lo in range(0, 256, 32)]


def ed_key(kind, seed):
    if kind == "ed25519":
        return ed25519.Ed25519PrivateKey.from_private_bytes(bytes([seed]) * 32)
    return ed448.Ed448PrivateKey.from_private_bytes(bytes([seed]) * 57)


def run_ed(case, agg):
    ok = 0
    with fresh_dir("c15e") as d:
        for s in case["seeds"]:
            priv = ed_key(case["kind"], s)
            want = expected_public(priv)
            try:
                text = convert(priv, d)
            except Exception as e:
                agg.viol(f"C15:convert/failed/{type(e).__name__}", f"{case['kind']} seed {s}: {e}", case={"kind": case["kind"], "seeds": [s]})
                return
            got, problems, _ = parse_c(text)
            if problems or got != want:
                agg.viol(f"C15:convert/{case['kind']}/wrong-bytes", f"{case['kind']} seed {s}: array {None if got is None else got.hex()[:16]} ({None if got is None else len(got)} bytes), raw public key {want.hex()[:16]} ({len(want)}); {problems}",
                         case={"kind": case["kind"], "seeds": [s]})
                return
            ok += 1
    agg.evaluations += ok
    agg.outcomes["ok:ed-key"] += ok
    agg.notes["__disjoint_distinct__"] += ok
    if case["seeds"][0] == 0:
        agg.samples.append({"kind": case["kind"], "seeds": "0..31"})


def fmt_cases(tier):
    out = []
    keys = [("p256", 1), ("p256", 43), ("p384", 2), ("p521", 1), ("p521", 3), ("ed25519", 7), ("ed448", 9)]
    for ki, k in enumerate(keys):
        for cols, ind, tab, nol, noc, lt in itertools.product((1, 2, 7, 8, 64, 200), (0, 4), (False, True), (False, True), (False, True), ("size_t", "uint32_t")):
            out.append({"key": list(k), "cols": cols, "ind": ind, "tab": tab, "nol": nol, "noc": noc, "lt": lt})
    return out


def run_fmt(case, agg):
    kind, s = case["key"]
    priv = ec.derive_private_key(s, CURVES[kind][0]) if kind in CURVES else ed_key(kind, s)
    want = expected_public(priv)
    key = h8("c15f", case)
    label = f"convert {kind}#{s} columns={case['cols']} indent={case['ind']}{'tab' if case['tab'] else 'sp'} no_length={case['nol']} no_const={case['noc']} length_type={case['lt']}"
    with fresh_dir("c15f") as d:
        try:
            base = convert(priv, d)
            text = convert(priv, d, columns_count=case["cols"], indentation_count=case["ind"], indentation_tab=case["tab"],
                           no_length=case["nol"], no_const=case["noc"], length_type=case["lt"])
        except Exception as e:
            agg.viol(f"C15:convert/failed/{type(e).__name__}", f"{label}: {type(e).__name__}: {e}")
            return
    got, problems, toks = parse_c(text)
    if problems or got != want:
        agg.viol("C15:convert/format-changes-bytes", f"{label}: array {None if got is None else len(got)} bytes vs {len(want)}; {problems}")
        return
    _, _, btoks = parse_c(base)
    # expected token stream: the default one, minus const / the length variable, with the cast for a custom length type
    exp = list(btoks)
    if case["noc"]:
        exp = [t for t in exp if t != "const"]
    li = exp.index("size_t")
    tail_start = li - (0 if case["noc"] else 1)
    if case["nol"]:
        exp = exp[:tail_start]
    elif case["lt"] != "size_t":
        head, tail = exp[:tail_start], exp[tail_start:]
        tail = [case["lt"] if t == "size_t" else t for t in tail]
        eq = tail.index("=")
        tail = tail[:eq + 1] + ["(", case["lt"], ")"] + tail[eq + 1:]
        exp = head + tail
    if toks != exp:
        i = next((j for j in range(min(len(toks), len(exp))) if toks[j] != exp[j]), min(len(toks), len(exp)))
        agg.viol("C15:convert/format-changes-tokens", f"{label}: token stream differs from the default layout at token {i}: {toks[i:i + 6]} vs {exp[i:i + 6]}")
        return
    # layout really follows the options
    rows = [l for l in text.splitlines() if l.strip().startswith("0x")]
    if rows:
        ind = ("\t" if case["tab"] else " ") * case["ind"]
        if any(not r.startswith(ind + "0x") for r in rows) or max(len(re.findall("0x", r)) for r in rows) > case["cols"]:
            agg.viol("C15:convert/layout-ignored", f"{label}: indentation/columns not honoured")
            return
    agg.ok(key, "ok:format", sample={"options": {k: case[k] for k in ("cols", "ind", "tab", "nol", "noc", "lt")}, "key": case["key"]}
           if case["cols"] == 7 and case["tab"] and case["nol"] else None)


# -- the real CLI ---------------------------------------------------------------------------------------------

def cli_cases(tier):
    out = [{"cmd": "keys", "args": a} for a in ([], ["--type", "ed25519"], ["--type", "secp384r1", "--encoding", "der"], ["--encoding", "pem", "--private-format", "pkcs8", "--public-format", "default", "--encryption", "none"])]
    out += [{"cmd": "convert", "key": k, "args": a} for k in (["p256", 43], ["p521", 1], ["ed25519", 3]) for a in (
        [], ["--columns-count", "3"], ["--indentation-count", "0"], ["--indentation-tab", "--indentation-count", "1"], ["--no-length"], ["--no-const"],
        ["--array-type", "unsigned char", "--array-name", "pub_key", "--length-type", "unsigned int", "--length-name", "pub_key_len"],
        ["--header-file", "HEADER", "--footer-file", "FOOTER"])]
    return out


def run_cli(case, agg):
    from .. import impl
    with fresh_dir("c15cli") as d:
        if case["cmd"] == "keys":
            prefix = os.path.join(d, "key")
            rc, so, se = impl.cli(["keys", "--output-file", prefix] + case["args"], d)
            if rc != 0:
                agg.viol("C15:cli/keys-failed", f"{case}: rc={rc} {se[-300:]}")
                return
            a = case["args"]
            enc_ = a[a.index("--encoding") + 1] if "--encoding" in a else "pem"            # documented defaults
            typ = a[a.index("--type") + 1] if "--type" in a else "secp256r1"
            try:
                pb, ub = open(f"{prefix}_priv.{enc_}", "rb").read(), open(f"{prefix}_pub.{enc_}", "rb").read()
                priv = serialization.load_pem_private_key(pb, None) if enc_ == "pem" else serialization.load_der_private_key(pb, None)
                pub = serialization.load_pem_public_key(ub) if enc_ == "pem" else serialization.load_der_public_key(ub)
            except Exception as e:
                agg.viol("C15:cli/keys-files", f"{case}: {type(e).__name__}: {e}")
                return
            cls, bits = TYPE_CLASS[typ]
            spki = lambda k: k.public_bytes(serialization.Encoding.DER, serialization.PublicFormat.SubjectPublicKeyInfo)       # noqa
            if not isinstance(priv, cls) or (bits and priv.key_size != bits) or spki(priv.public_key()) != spki(pub):
                agg.viol("C15:cli/keys-pair", f"{case}: wrong type or the files do not belong together")
                return
        else:
            kind, sd = case["key"]
            priv = ec.derive_private_key(sd, CURVES[kind][0]) if kind in CURVES else ed_key(kind, sd)
            inp, out = os.path.join(d, "k.pem"), os.path.join(d, "k.c")
            open(inp, "wb").write(priv.private_bytes(serialization.Encoding.PEM, serialization.PrivateFormat.PKCS8, serialization.NoEncryption()))
            args = list(case["args"])
            for i, a in enumerate(args):
                if a in ("HEADER", "FOOTER"):
                    f = os.path.join(d, a.lower() + ".txt")
                    open(f, "w").write("/* license */\n#ifndef K_H\n" if a == "HEADER" else "#endif\n")
                    args[i] = f
            rc, so, se = impl.cli(["convert", "--input-file", inp, "--output-file", out] + args, d)
            if rc != 0:
                agg.viol("C15:cli/convert-failed", f"{case}: rc={rc} {se[-300:]}")
                return
            text = open(out, encoding="utf-8").read()
            a = case["args"]
            name = a[a.index("--array-name") + 1] if "--array-name" in a else "key_buf"
            got, problems, _ = parse_c(text, array_name=name)
            want = expected_public(priv)
            if problems or got != want:
                agg.viol("C15:cli/convert-bytes", f"{case}: array {None if got is None else len(got)} bytes vs {len(want)}; {problems}")
                return
            checks = []
            if "--no-length" in a:
                checks.append(("sizeof(" not in text, "--no-length ignored"))
            else:
                checks.append((f"sizeof({name})" in text, "length variable is not sizeof(array)"))
            checks.append((("const " not in text) == ("--no-const" in a), "--no-const not honoured"))
            if "--columns-count" in a:
                checks.append((max(len(re.findall("0x", l)) for l in text.splitlines()) == 3, "--columns-count not honoured"))
            if "--indentation-tab" in a:
                checks.append((all(l.startswith("\t0x") for l in text.splitlines() if "0x" in l), "--indentation-tab not honoured"))
            if "--indentation-count" in a and "--indentation-tab" not in a:
                checks.append((all(l.startswith("0x") for l in text.splitlines() if "0x" in l), "--indentation-count 0 not honoured"))
            if "--array-type" in a:
                checks.append(("unsigned char pub_key[]" in text and "unsigned int pub_key_len = (unsigned int) sizeof(pub_key);" in text, "custom names/types not honoured"))
            if "--header-file" in a:
                checks.append((text.startswith("/* license */") and text.rstrip().endswith("#endif"), "header/footer not included"))
            bad = [m for ok_, m in checks if not ok_]
            if bad:
                agg.viol("C15:cli/convert-options", f"{case}: {bad}")
                return
    agg.ok(h8("c15cli", case), f"ok:cli:{case['cmd']}", sample=case if case["args"] and case["args"][0] == "--array-type" else None)

# -- every standard PEM form of a private key; the keys command's own output fed to convert -------------------
PEM_FORMS = ["pkcs8", "traditional", "pkcs8-crlf", "traditional-crlf", "pkcs8-no-final-newline", "pkcs8-leading-blank-lines", "pkcs8-trailing-text",
             "keys-pkcs8", "keys-pkcs1"]


def pemform_cases(tier):
    return [{"k": k, "form": f, "cols": cols} for k in CONV_KEYS for f in PEM_FORMS for cols in ((8, 7) if tier == "quick" else (8, 1, 3, 7, 12, 19, 31, 131))]


def run_pemform(case, agg):
    """convert accepts what standard tooling accepts as a PEM private key (PKCS#8 and, for the NIST curves, the
    traditional 'EC PRIVATE KEY' form; either line ending; text around the armour) and what `keys` itself writes; the
    array is exactly the public key in every case"""
    from suit_generator import cmd_convert, cmd_keys
    from .. import keys as vkeys
    kind, form = case["k"], case["form"]
    is_ec = kind.startswith("p")
    label = f"convert of a {kind} key given as {form} PEM, {case['cols']} columns"
    with fresh_dir("c15p") as d:
        inp, out = os.path.join(d, "key.v1.pem"), os.path.join(d, "k.c")
        if form.startswith("keys-"):
            t = {"p256": "secp256r1", "p384": "secp384r1", "p521": "secp521r1"}.get(kind, kind)
            try:
                cmd_keys.main(output_file=os.path.join(d, "key.v1"), type=t, encoding="pem", private_format=form[5:], public_format="default", encryption="none")
            except Exception as e:
                agg.rej(h8("c15p", case), f"keys-refused:{type(e).__name__}", nontrivial=False)
                return
            inp = os.path.join(d, "key.v1_priv.pem")
            blob = open(inp, "rb").read()
        else:
            priv = vkeys.private_key(kind + "_conv")
            if form.startswith("traditional"):
                if not is_ec:
                    agg.rej(h8("c15p", case), "no-traditional-form-for-this-type", nontrivial=False)
                    return
                blob = priv.private_bytes(serialization.Encoding.PEM, serialization.PrivateFormat.TraditionalOpenSSL, serialization.NoEncryption())
            else:
                blob = priv.private_bytes(serialization.Encoding.PEM, serialization.PrivateFormat.PKCS8, serialization.NoEncryption())
            if form.endswith("crlf"):
                blob = blob.replace(b"\n", b"\r\n")
            elif form.endswith("no-final-newline"):
                blob = blob.rstrip(b"\n")
            elif form.endswith("leading-blank-lines"):
                blob = b"\n\n" + blob
            elif form.endswith("trailing-text"):
                blob = blob + b"\n# generated for the release build\n"
            open(inp, "wb").write(blob)
        try:
            priv = serialization.load_pem_private_key(blob, None)
        except Exception as e:
            agg.rej(h8("c15p", case), f"standard-tooling-refuses:{type(e).__name__}", nontrivial=False)
            return
        o = dict(DEFAULTS)
        o["columns_count"] = case["cols"]
        try:
            cmd_convert.main(input_file=inp, output_file=out, **o)
            text = open(out, encoding="utf-8").read()
        except Exception as e:
            agg.viol(f"C15:convert/pem-form-refused/{type(e).__name__}", f"{label}: standard tooling loads the file, convert fails: {type(e).__name__}: {str(e)[:200]}")
            return
    got, problems, _ = parse_c(text)
    want = expected_public(priv)
    if got is None or problems:
        agg.viol("C15:convert/malformed-c", f"{label}: {problems[:2]}")
    elif got != want:
        agg.viol(f"C15:convert/{kind}/wrong-bytes", f"{label}: array {got[:8].hex()} ({len(got)} bytes), public key {want[:8].hex()} ({len(want)})")
    else:
        agg.ok(h8("c15p", case), f"ok:{form}", sample=case if form == "traditional-crlf" and kind == "p521" else None)


RULE += ". Further stages: " + "convert-pem-forms - PKCS#8 / traditional EC PEM, CRLF, text around the armour, and the keys command's own pkcs8 / pkcs1 output fed to convert"


def plan(tier):
    return [
        CaseStage("keys", lambda: keys_cases(tier), run_keys, rule="type x encoding x private format x public format x 3"),
        CaseStage("keys-same-prefix-twice", lambda: rekey_cases(tier), run_rekey, rule="two runs with one prefix (4 type pairs x 2 encodings)"),
        CaseStage("convert-nist-scalars", lambda: scalar_cases(tier), run_scalars, chunk=1, rule="d = 1..N per curve + leading-zero table"),
        CaseStage("convert-ed", lambda: ed_cases(tier), run_ed, chunk=1, rule="Ed25519/Ed448 from seeds 0..255"),
        CaseStage("converter-object-reused", lambda: convobj_cases(tier), run_convobj,
                  rule="all sequences of <= 3 operations {prepare, generate} x {key file kept, key file replaced} on one KeyConverter object"),
        CaseStage("convert-pem-forms", lambda: pemform_cases(tier), run_pemform,
                  rule="5 key types x 9 PEM forms (PKCS#8 / traditional EC, CRLF, text around the armour, the keys command's own pkcs8 / pkcs1 output) x column counts"),
        CaseStage("cli", lambda: cli_cases(tier), run_cli, rule="real CLI: keys with default / explicit options; convert with every option"),
        CaseStage("convert-formatting", lambda: fmt_cases(tier), run_fmt, disjoint=True, rule="columns x indent x tab x no-length x no-const x length type"),
    ]
