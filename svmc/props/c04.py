"""C04 - signing attaches a verifiable COSE_Sign1 and changes nothing else."""
from __future__ import annotations

import copy
import itertools
import os

from .. import core, gen, impl, refcbor, refcose, keys as vkeys
from ..core import CaseStage, fresh_dir, h8, seed_slice
from ..refcbor import enc

LEVEL = "exploration"
RULE = ("full product envelope set E (lifecycle seeds, manifest length at every CBOR width boundary, every severable/"
        "payload/dependency variant of G at deviation 1) x 5 algorithms (x matching key types incl. Ed448) x key ids at "
        "CBOR width boundaries over the 32-bit range x key file encoding {PEM, DER} through cmd_sign.main single-level "
        "(rotating slice through the CLI). Oracle: the output equals the input with exactly one more authentication "
        "element, every other span byte-identical (verifier's reader), the new element is bstr(18([bstr(prot), {}, nil, "
        "sig])) with prot = {1: alg, 4: bstr(cbor(key id))} exactly, and the signature verifies under the public half "
        "of the harness key over ['Signature1', prot, h'', digest bstr] built by the verifier (ECDSA via cryptography "
        "with fixed-width r||s, Ed25519ph via a pure-Python RFC 8032 verifier). Signature values: (i) seam - the KMS "
        "ECDSA conversion driven with every (r, s) leading-zero pattern for 3 curves; (ii) N real signatures per curve "
        "through SuitKMS.sign, each checked for width and validity; (iii) histories of library sign_envelope calls on one in-memory envelope object (immutable or plain-dict content, fresh or reused Signer): every result is the original plus one block, the caller's object and earlier results never change. distinct = distinct (envelope, alg, key, kid, "
        "encoding) tuples / (r,s) pairs / signatures")
ASSUMPTIONS = ["cryptography's verification primitives (ECDSA, Ed25519, Ed448)", "svmc/refcose.py (self-tested with RFC 8032 vectors)",
               "real-randomness stage (ii) is exhaustive only in the number of draws, each recorded signature is the artefact"]
BOUNDS = {"quick": "|E|~45 x 6 (alg,key) x 11 key ids x 2 encodings; (r,s) seam complete; library histories depth 2; 5000 real signatures per curve",
          "thorough": "same product; library histories depth 3; 20000 real signatures per curve"}

KIDS = [0x7FFFFFE0, 0, 1, 23, 24, 255, 256, 65535, 65536, 2**32 - 1, 0x40000000]
ALG_KEYS = [("eddsa", "ed25519"), ("es-256", "p256"), ("es-384", "p384"), ("es-521", "p521"), ("hash-eddsa", "ed25519"), ("eddsa", "ed448")]


def scripts():
    r = os.environ["SVMC_REPO"]
    return os.path.join(r, "ncs", "sign_script.py"), os.path.join(r, "ncs", "basic_kms.py")


def envelope_set():
    """name -> description (all unsigned)."""
    from .c03 import seeds
    out = dict(seeds())
    # G envelope/commands scenarios at deviation <= 1
    for node in ("envelope", "parameters"):
        fn = gen.NODE_SCENARIOS[node]
        base = core.Chooser([])
        fn(base, "/nonexistent")
        prefixes = [[]]
        for i, (lab, n) in enumerate(base.points):
            for alt in range(1, n):
                prefixes.append(base.choices[:i] + [alt])
        for p in prefixes[:40]:
            ch = core.Chooser(p)
            desc, files = fn(ch, "/nonexistent")
            if files:
                continue
            out[f"{node}:{','.join(map(str, p))}"] = desc
    return out


_E = None


def created_set():
    """name -> envelope bytes (created once per process)."""
    global _E
    if _E is None:
        _E = {}
        for name, desc in envelope_set().items():
            try:
                _E[name] = impl.tool_create(desc)
            except Exception:
                pass
        from .c01 import _solve
        for L in (23, 24, 255, 256, 65535, 65536):
            def make(n):
                return gen.minimal(man={"suit-reference-uri": "u" * n})

            def measure(data):
                env, raw = impl.envelope_members(data)
                return len(env.get(3).value)
            try:
                n, data = _solve(make, measure, L)
                if data:
                    _E[f"manifest-len-{L}"] = data
            except Exception:
                pass
    return _E


def check_signed(inp: bytes, out: bytes, alg_name: str, key_name: str, kid: int):
    """-> (tag, text) or None"""
    try:
        e1, r1 = impl.envelope_members(inp)
        e2, r2 = impl.envelope_members(out)
    except refcbor.CborError as e:
        return "output-undecodable", str(e)
    if e1.keys() != e2.keys():
        return "members-changed", f"envelope keys {e1.keys()} became {e2.keys()}"
    for k in r1:
        if k != 2 and r1[k] != r2[k]:
            return ("manifest-changed" if k == 3 else "member-changed"), f"envelope member {k!r} is not byte-identical"
    a1, a2 = refcbor.decode(e1.get(2).value), refcbor.decode(e2.get(2).value)
    if a2.kind != "array" or len(a2.items) != len(a1.items) + 1:
        return "auth-count", f"authentication list has {len(a2.items)} elements, expected {len(a1.items) + 1}"
    v1, v2 = e1.get(2).value, e2.get(2).value
    for x, y in zip(a1.items, a2.items):
        if x.raw(v1) != y.raw(v2):
            return "auth-existing-changed", "an existing authentication element (digest or earlier block) changed"
    if refcbor.is_canonical(out):
        return "non-canonical", refcbor.is_canonical(out)
    blk = a2.items[-1]
    if blk.kind != "bstr":
        return "block-structure", "new authentication element is not a byte string"
    try:
        t = refcbor.decode(blk.value)
    except refcbor.CborError as e:
        return "block-structure", f"new block undecodable: {e}"
    if t.kind != "tag" or t.value != 18 or t.items[0].kind != "array" or len(t.items[0].items) != 4:
        return "block-structure", "new block is not tag 18 over a 4-element array"
    prot, unprot, payload, sig = t.items[0].items
    if prot.kind != "bstr" or unprot.kind != "map" or unprot.items or payload.kind != "simple" or payload.value != 22 or sig.kind != "bstr":
        return "block-structure", f"block layout [bstr, {{}}, nil, bstr] violated: {[prot.kind, unprot.kind, len(unprot.items or []), payload.kind, sig.kind]}"
    alg = refcose.ALG_BY_NAME[alg_name]
    want_prot = enc({1: alg, 4: enc(kid)})
    if prot.value != want_prot:
        try:
            got = refcbor.to_py(refcbor.decode(prot.value))
        except refcbor.CborError:
            got = prot.value.hex()
        return "protected-header", f"protected header is {got!r} ({prot.value.hex()}), expected {{1: {alg}, 4: bstr(cbor({kid}))}} ({want_prot.hex()})"
    digest_bstr = a2.items[0]
    tbs = refcose.sig_structure(prot.value, digest_bstr.value)
    pub = vkeys.private_key(key_name[:-len("/alt-store")] + "_plain_alt" if key_name.endswith("/alt-store") else vkeys.identity(key_name)).public_key()
    bad = refcose.verify(alg, pub, sig.value, tbs)
    if bad:
        return "signature", bad
    return None


def sign_cases(tier):
    names = sorted(created_set())
    out = []
    i = 0
    for en in names:
        for (alg, key) in ALG_KEYS:
            for kid in KIDS:
                for encoding in ("pem", "der"):
                    out.append({"env": en, "alg": alg, "key": key, "kid": kid, "enc": encoding, "i": i})
                    i += 1
    return out


def run_sign(case, agg):
    from suit_generator import cmd_sign
    from suit_generator.suit_sign_script_base import SuitSignAlgorithms, SignatureAlreadyPresentActions
    b = created_set()[case["env"]]
    key = h8("c04", {k: case[k] for k in ("env", "alg", "key", "kid", "enc")})
    kname = case["key"] + ("_der" if case["enc"] == "der" else "")
    label = f"sign {case['env']} alg={case['alg']} key={kname} kid={case['kid']}"
    sign_script, kms_script = scripts()
    kd = vkeys.key_dir()
    if case["i"] % 3 == 1:
        import json as _json
        kd = _json.dumps({"keys_directory": kd})          # the documented JSON form of the context
    with fresh_dir("c04") as d:
        inp, outp = os.path.join(d, "in.suit"), os.path.join(d, "out.suit")
        open(inp, "wb").write(b)
        if case["i"] % 5 == 0:
            outp = inp                      # signing in place: --output-envelope names the input file
        else:
            impl.prefill(outp)              # the output path already exists with longer content
        try:
            if seed_slice(case["i"], 397):
                rc, so, se = impl.cli(["sign", "single-level", "--input-envelope", inp, "--output-envelope", outp, "--key-name", kname,
                                       "--key-id", (hex, str, oct, bin)[case["kid"] % 4](case["kid"]), "--alg", case["alg"], "--context", kd, "--sign-script", sign_script,
                                       "--kms-script", kms_script], d)
                if rc != 0:
                    raise RuntimeError(f"CLI rc={rc}: {se[-400:]}")
                via = "cli"
            else:
                cmd_sign.main(sign_subcommand="single-level", input_envelope=inp, output_envelope=outp, key_name=kname,
                              key_id=case["kid"], alg=SuitSignAlgorithms(case["alg"]), context=kd, sign_script=sign_script,
                              kms_script=kms_script, already_signed_action=SignatureAlreadyPresentActions("error"))
                via = "main"
            out = open(outp, "rb").read()
        except Exception as e:
            site = impl.site_of(e) if not isinstance(e, RuntimeError) else "cli"
            agg.viol(f"C04:sign-failed/{type(e).__name__}@{site}" + ("/der-key" if case["enc"] == "der" and "Unicode" in type(e).__name__ else ""),
                     f"{label}: {type(e).__name__}: {str(e)[:300]}")
            return
    r = check_signed(b, out, case["alg"], kname, case["kid"])
    if r:
        agg.viol(f"C04:{r[0]}", f"{label}: {r[1]}", artefacts={"input": b.hex()[:2000], "output": out.hex()[:3000]})
    else:
        agg.ok(key, f"ok:{via}:{case['alg']}", sample={"envelope": case["env"], "alg": case["alg"], "key": kname, "kid": case["kid"]}
               if case["kid"] == 256 and case["enc"] == "der" else None)


# -- (i) the (r, s) seam -----------------------------------------------------------------------------

ORDERS = {
    256: 0xFFFFFFFF00000000FFFFFFFFFFFFFFFFBCE6FAADA7179E84F3B9CAC2FC632551,
    384: 0xFFFFFFFFFFFFFFFFFFFFFFFFFFFFFFFFFFFFFFFFFFFFFFFFC7634D81F4372DDF581A0DB248B0A77AECEC196ACCC52973,
    521: int("01FF" + "FFFFFFFF" * 7 + "FFFFFFFA" + "51868783BF2F966B7FCC0148F709A5D03BB5C9B8899C47AEBB6FB71E91386409", 16),
}


assert [ORDERS[b].bit_length() for b in (256, 384, 521)] == [256, 384, 521]


def boundary_values(bits):
    n = ORDERS[bits]
    nb = (bits + 7) // 8
    vals = {1, n - 1}
    for k in range(1, nb + 1):
        for v in (2 ** (8 * k) - 1, 2 ** (8 * k), 2 ** (8 * k - 1)):
            if 0 < v < n:
                vals.add(v)
    return sorted(vals)


class _StubKey:
    def __init__(self, bits, r, s):
        self.key_size = bits
        self._rs = (r, s)

    def sign(self, data, alg):
        from cryptography.hazmat.primitives.asymmetric.utils import encode_dss_signature
        return encode_dss_signature(*self._rs)


def _kms():
    import importlib.util
    import sys
    name = "svmc_kms_module"
    if name in sys.modules:
        return sys.modules[name]
    spec = importlib.util.spec_from_file_location(name, scripts()[1])
    mod = importlib.util.module_from_spec(spec)
    sys.modules[name] = mod
    spec.loader.exec_module(mod)
    return mod


def rs_cases(tier):
    out = []
    for bits in (256, 384, 521):
        vals = boundary_values(bits)
        for i in range(0, len(vals), 8):
            out.append({"bits": bits, "lo": i, "hi": min(len(vals), i + 8)})
    return out


def run_rs(case, agg):
    bits = case["bits"]
    kms = _kms().suit_kms_factory()
    conv = getattr(kms, "_create_cose_es_signature", None)
    if conv is None:
        agg.unavailable["kms-ecdsa-conversion-seam"] += 1
        agg.rej(h8("rs-unav", case), "seam-unavailable", nontrivial=False)
        return
    vals = boundary_values(bits)
    nb = (bits + 7) // 8
    ok = 0
    for r in vals[case["lo"]:case["hi"]]:
        for s in vals:
            try:
                sig = conv(b"data", _StubKey(bits, r, s))
            except Exception as e:
                agg.viol(f"C04:rs-conversion/{type(e).__name__}", f"P-{bits} r has {nb - (r.bit_length() + 7) // 8} leading zero bytes, s has {nb - (s.bit_length() + 7) // 8}: {e}",
                         case={"bits": bits, "r": hex(r), "s": hex(s)})
                return
            if len(sig) != 2 * nb or int.from_bytes(sig[:nb], "big") != r or int.from_bytes(sig[nb:], "big") != s:
                agg.viol("C04:rs-width", f"P-{bits}: (r,s) with {nb - (r.bit_length() + 7) // 8}/{nb - (s.bit_length() + 7) // 8} leading zero bytes "
                         f"converted to {len(sig)} bytes, fixed width is {2 * nb}", case={"bits": bits, "r": hex(r), "s": hex(s)})
                return
            ok += 1
    agg.evaluations += ok
    agg.outcomes["ok:rs"] += ok
    agg.notes["__disjoint_distinct__"] += ok
    if case["lo"] == 0:
        agg.samples.append({"curve_bits": bits, "r": hex(vals[1]), "s": hex(vals[-1]), "boundary_values": len(vals)})


# -- (ii) real signatures through the public KMS API ---------------------------------------------------

def volume_cases(tier):
    n = 5000 if tier == "quick" else 20000
    out = []
    for key, alg in (("p256", "es-256"), ("p384", "es-384"), ("p521", "es-521")):
        for c in range(0, n, 250):
            out.append({"key": key, "alg": alg, "n": 250, "c": c})
    return out


def run_volume(case, agg):
    kms = _kms().suit_kms_factory()
    kms.init_kms(vkeys.key_dir())
    pub = vkeys.private_key(case["key"]).public_key()
    alg = refcose.ALG_BY_NAME[case["alg"]]
    nb = refcose.ES_PARAMS[alg][2]
    ok = zeros = 0
    for i in range(case["n"]):
        msg = f"svmc {case['key']} {case['c'] + i}".encode()
        try:
            sig = kms.sign(msg, case["key"], case["alg"], None)
        except Exception as e:
            agg.viol(f"C04:kms-sign-failed/{type(e).__name__}", f"{case}: {e}")
            return
        bad = refcose.verify(alg, pub, sig, msg)
        if bad:
            agg.viol("C04:kms-signature", f"{case['alg']}: {bad}", artefacts={"message": msg.hex(), "signature": sig.hex()})
            return
        if sig[0] == 0 or sig[nb] == 0:
            zeros += 1
        ok += 1
    agg.evaluations += ok
    agg.outcomes["ok:real-signature"] += ok
    agg.notes["__disjoint_distinct__"] += ok
    agg.notes[f"signatures-with-leading-zero-byte:{case['alg']}"] += zeros


class _VolumeStage(CaseStage):
    replayable = False


# -- key names ------------------------------------------------------------------------------------------

def keyname_cases(tier):
    out = []
    for alg, kind in ALG_KEYS:
        for pat in ("{}.v2", "solo.{}", "solo.{}-der", "{}-trad", "{}-crlf", "{}-sec1", "{}-text"):
            if pat[3:] in ("trad", "sec1") and not kind.startswith("p"):
                continue                # the traditional (SEC1) forms exist for the NIST curves only
            for via in ("main", "cli"):
                out.append({"alg": alg, "key": pat.format(kind), "via": via})
    return out


def run_keyname(case, agg):
    """key names as a project would choose them (dots in the name; a sibling key with the truncated name present or
    not): the file <key-name>.pem / <key-name>.der of the key directory signs"""
    from suit_generator import cmd_sign
    from suit_generator.suit_sign_script_base import SuitSignAlgorithms, SignatureAlreadyPresentActions
    b = created_set()["manifest-len-24"]
    sign_script, kms_script = scripts()
    label = f"sign with key name {case['key']!r} alg={case['alg']} via {case['via']}"
    with fresh_dir("c04k") as d:
        inp, outp = os.path.join(d, "in.suit"), os.path.join(d, "out.suit")
        open(inp, "wb").write(b)
        try:
            if case["via"] == "cli":
                rc, so, se = impl.cli(["sign", "single-level", "--input-envelope", inp, "--output-envelope", outp, "--key-name", case["key"],
                                       "--key-id", "0x77", "--alg", case["alg"], "--context", vkeys.key_dir(), "--sign-script", sign_script,
                                       "--kms-script", kms_script], d)
                if rc != 0:
                    raise RuntimeError(f"CLI rc={rc}: {se[-300:]}")
            else:
                cmd_sign.main(sign_subcommand="single-level", input_envelope=inp, output_envelope=outp, key_name=case["key"],
                              key_id=0x77, alg=SuitSignAlgorithms(case["alg"]), context=vkeys.key_dir(), sign_script=sign_script,
                              kms_script=kms_script, already_signed_action=SignatureAlreadyPresentActions("error"))
            out = open(outp, "rb").read()
        except Exception as e:
            if case["key"].endswith("-text"):
                # text before the armour: accepted by the standard loader of this installation or not - a refusal is not a violation
                agg.rej(h8("c04k", case), "refused:text-before-armour", nontrivial=False)
                return
            agg.viol(f"C04:key-name/sign-failed/{type(e).__name__}", f"{label}: {type(e).__name__}: {str(e)[-300:]}")
            return
    r = check_signed(b, out, case["alg"], case["key"], 0x77)
    if r:
        agg.viol(f"C04:key-name/{r[0]}", f"{label}: {r[1]}")
    else:
        agg.ok(h8("c04k", case), f"ok:{case['via']}", sample=case if case["alg"] == "es-384" and case["via"] == "cli" else None)


# -- several KMS scripts in one process --------------------------------------------------------------------

def kmsseq_cases(tier):
    return [{"runs": list(p), "alg": a} for n in (1, 2, 3) for p in itertools.product(("stock", "alt"), repeat=n) for a in (("eddsa", "ed25519"), ("es-256", "p256"))]


def run_kmsseq(case, agg):
    """a history of single-level signings in ONE process with two different KMS scripts that share their file name
    (basic_kms.py in two directories, each with its own key store holding another key under the same name): every
    signature verifies under the key of the store whose script was named for THAT run"""
    from suit_generator import cmd_sign
    from suit_generator.suit_sign_script_base import SuitSignAlgorithms, SignatureAlreadyPresentActions
    from .c09 import ALT_KMS
    b = created_set()["manifest-len-24"]
    sign_script, kms_script = scripts()
    alg, kname = case["alg"]
    label = f"signings in one process with KMS scripts {case['runs']} (same file name), alg {alg}"
    with fresh_dir("c04s") as d:
        os.makedirs(os.path.join(d, "alt"))
        alt = os.path.join(d, "alt", os.path.basename(kms_script))
        open(alt, "w").write(ALT_KMS % (kms_script, vkeys.key_dir_alt()))
        inp = os.path.join(d, "in.suit")
        open(inp, "wb").write(b)
        for n, which in enumerate(case["runs"]):
            outp = os.path.join(d, f"out{n}.suit")
            try:
                cmd_sign.main(sign_subcommand="single-level", input_envelope=inp, output_envelope=outp, key_name=kname, key_id=0x30 + n,
                              alg=SuitSignAlgorithms(alg), context=vkeys.key_dir(), sign_script=sign_script,
                              kms_script=kms_script if which == "stock" else alt, already_signed_action=SignatureAlreadyPresentActions("error"))
                out = open(outp, "rb").read()
            except Exception as e:
                agg.viol(f"C04:kms-scripts/sign-failed/{type(e).__name__}", f"{label}: run {n + 1}: {type(e).__name__}: {str(e)[:200]}")
                return
            r = check_signed(b, out, alg, kname if which == "stock" else kname + "/alt-store", 0x30 + n)
            if r:
                agg.viol(f"C04:kms-scripts/{r[0]}", f"{label}: run {n + 1} ({which} script): {r[1]}")
                return
    agg.ok(h8("c04s", case), f"ok:runs={len(case['runs'])}", sample=case if case["runs"] == ["stock", "alt"] and alg == "es-256" else None)


# -- (iii) the sign script's library API on in-memory envelopes -------------------------------------------

LIB_ENVS = ["manifest-len-24", "manifest-len-256"]
LIB_OPS = [(form, reuse, ak) for form in ("frozen", "dict") for reuse in ("fresh-signer", "same-signer") for ak in range(len(ALG_KEYS))]


def lib_init():
    return [((e,), ("env", e)) for e in LIB_ENVS]


def lib_step(hist, agg, expand):
    """a history of sign_envelope calls on ONE in-memory envelope object (each call with its own algorithm/key, by a
    fresh or the same Signer, the tag content given as cbor2's immutable mapping or as a plain dict): every result is
    the ORIGINAL input plus exactly one block, the caller's object is never modified, earlier results stay as they were"""
    import cbor2
    import importlib.util
    from suit_generator.suit_sign_script_base import SuitSignAlgorithms, SignatureAlreadyPresentActions
    hist = core.tuplify(hist)
    if len(hist) > 1:
        sign_script, kms_script = scripts()
        spec = importlib.util.spec_from_file_location("svmc_sign_script", sign_script)
        mod = importlib.util.module_from_spec(spec)
        spec.loader.exec_module(mod)
        b = created_set()[hist[0]]
        label = f"library sign_envelope history on one in-memory envelope ({hist[0]}): {[LIB_OPS[i][:2] + (ALG_KEYS[LIB_OPS[i][2]][0],) for i in hist[1:]]}"
        form0 = LIB_OPS[hist[1]][0]
        env = cbor2.loads(b)
        if form0 == "dict":
            env = cbor2.CBORTag(env.tag, dict(env.value))
        shared = mod.suit_signer_factory()
        results = []
        try:
            for n, i in enumerate(hist[1:]):
                form, reuse, ak = LIB_OPS[i]
                alg, kname = ALG_KEYS[ak]
                signer = shared if reuse == "same-signer" else mod.suit_signer_factory()
                out = signer.sign_envelope(env, kname, 0x1000 + n, SuitSignAlgorithms(alg), vkeys.key_dir(), kms_script,
                                           SignatureAlreadyPresentActions("error"))
                results.append((cbor2.dumps(out), alg, kname, 0x1000 + n, out))
                if cbor2.dumps(env) != b:
                    agg.viol("C04:library/input-modified", f"{label}: the caller's envelope object changed during call {n + 1}")
                    return []
        except Exception as e:
            agg.viol(f"C04:library/sign-failed/{type(e).__name__}@{impl.site_of(e)}", f"{label}: call {len(results) + 1}: {type(e).__name__}: {str(e)[:200]}")
            return []
        for n, (ob, alg, kname, kid, obj) in enumerate(results):
            r = check_signed(b, ob, alg, kname, kid)
            if r is None and cbor2.dumps(obj) != ob:
                r = ("library/earlier-result-modified", f"the object returned by call {n + 1} changed during a later call")
            if r:
                agg.viol(f"C04:{r[0]}" if r[0].startswith("library") else f"C04:library/{r[0]}", f"{label}: result of call {n + 1}: {r[1]}")
                return []
        agg.ok(h8("c04lib", hist), f"ok:lib:depth{len(hist) - 1}", sample={"history": [list(LIB_OPS[i][:2]) + [ALG_KEYS[LIB_OPS[i][2]][0]] for i in hist[1:]]} if hist[1:] == (13, 2) else None)
    if not expand:
        return []
    # the form of the object is fixed by the first call (it is one object); later calls only vary signer/alg
    ops = range(len(LIB_OPS)) if len(hist) == 1 else [i for i in range(len(LIB_OPS)) if LIB_OPS[i][0] == LIB_OPS[hist[1]][0]]
    return [(f"sign:{LIB_OPS[i]}", hist + (i,), h8("c04l", hist + (i,))) for i in ops]


def plan(tier):
    return [
        CaseStage("sign-product", lambda: sign_cases(tier), run_sign, disjoint=True, rule="E x (alg,key) x key id x key encoding"),
        CaseStage("rs-seam", lambda: rs_cases(tier), run_rs, chunk=1, rule="every (r,s) leading-zero pattern, 3 curves, through the KMS ECDSA conversion"),
        CaseStage("key-names", lambda: keyname_cases(tier), run_keyname, chunk=2,
                  rule="6 (alg,key type) x {key names with dots (sibling with the truncated name present / absent, PEM / DER), key files in the traditional EC PEM / SEC1 DER form, with CRLF line ends, with text before the armour} x main / CLI"),
        CaseStage("kms-scripts-in-one-process", lambda: kmsseq_cases(tier), run_kmsseq,
                  rule="all sequences of <= 3 single-level signings with {stock KMS script, a second script of the same file name and another key store} x 2 algorithms"),
        core.BfsStage("library-histories", lib_init, lib_step, max_depth=2 if tier == "quick" else 3,
                      rule="histories of sign_envelope calls on one in-memory envelope object: {frozen, dict} content x {fresh, same} Signer x 6 (alg,key)"),
        _VolumeStage("real-signatures", lambda: volume_cases(tier), run_volume, chunk=1, rule="N real ECDSA signatures per curve through SuitKMS.sign"),
    ]
