"""C13 - vendor/class UUIDs are derived identically everywhere."""
from __future__ import annotations

import itertools
import os

from .. import gen, impl, refcbor, refhex, refuuid
from ..core import CaseStage, fresh_dir, h8, seed_slice
from . import c07

LEVEL = "exploration"
RULE = ("full product vendor x class over 13x17 names (incl. control characters other than newline: VT, FF, FS/GS/RS, NEL, LS, PS) (incl. names that look like Kconfig literals: digits, 0x.., y) (defaults of both SoCs, empty, one character, non-ASCII, 300 "
        "characters, names differing only in case / trailing dot): (1) manifest vendor/class parameters and component ID "
        "from RFC4122_UUID name and namespace+name descriptions (library and YAML/JSON files), bytes located with the "
        "verifier's reader; (2) MPI record bytes 16..47 (library call, and for every pair the real CLI subprocess); (3) image boot with a build configuration giving the pair to each "
        "configurable role in turn - the envelope of that class must land in exactly that role's slot; all three must "
        "equal UUIDv5(UUIDv5(DNS, vendor), class) / UUIDv5(DNS, vendor) computed by the verifier from hashlib.sha1. "
        "configurations: all 4^3 assignments of the three roles without defaults to pairs of a 4-pair pool (every "
        "collision pattern: equal pairs must be rejected, a pair colliding with a default is served by the configured "
        "role), each probed with an envelope of every pool pair.")
ASSUMPTIONS = ["svmc/refuuid.py (hashlib.sha1)", "svmc/refhex.py, svmc/refcbor.py", "names are representable in a quoted Kconfig string (no quote / newline)"]
BOUNDS = {"quick": "221 name pairs x 3 derivation sites + the real CLI of mpi generate; 64 configurations x 4 probe envelopes; 6 malformed configurations",
          "thorough": "same (complete)"}

VENDORS = ["nordicsemi.com", "", "a", "zażółć.example", "xY" * 150, "Nordicsemi.com", "nordicsemi.com.", "acme.example", "nordicsemi.com ", "2024", "y",
           "ven\x0bdor\x0c.example", "nel\x85ls\u2028ps\u2029.example",
           # names that could be taken for something else: a UUID in three spellings, hex digits, a path, markup characters
           "6ba7b8109dad11d180b400c04fd430c8", "7617daa5-71fd-5a85-8f94-e28d735ce9f4", "urn:uuid:{12345678-1234-5678-1234-567812345678}", "deadbeef",
           "R&D <acme> 'labs'.example", "../vendor/name.example", "%s{0}$HOME\\n.example"]
CLASSES = ["nRF54H20_sample_root", "nRF9280_sample_app", "", "b", "klasa_ąę€", "yZ" * 150, "nrf54h20_sample_root", "nRF54H20_sample_root.", "cls ", " cls", "0", "0x54", "y", "n", "007", "cl\x1cas\x1ds\x1e", "tab\there",
           "d4c8f1a0-7e2b-5c3d-9a6f-0b1e2d3c4f5a", "cafe", "Tom's_<app>&co", "cls=1 # x", "a/b\\c"]
CONFIGURABLE = ["APP_LOCAL_2", "APP_LOCAL_3", "RAD_LOCAL_2"]
POOL = [("acme.example", "cls_a"), ("acme.example", "cls_b"), ("nordicsemi.com", "nRF54H20_sample_app"), ("Acme.example", "cls_a")]


def pair_cases(tier):
    return [{"v": v, "c": c, "i": i} for i, (v, c) in enumerate(itertools.product(range(len(VENDORS)), range(len(CLASSES))))]


def find_role(outd, soc, base):
    """-> list of (role, stored envelope) for every populated slot in the written files."""
    found = []
    for dom in c07.DOMAINS:
        f = os.path.join(outd, f"suit_installed_envelopes_{dom}_merged.hex")
        if not os.path.exists(f):
            continue
        mem = refhex.read_hex_file(f)
        for start, data in refhex.regions(mem):
            pos = start
            while pos < start + len(data):
                hit = [r for r, (o, s, d) in c07.LAYOUT[soc].items() if base + o == pos and d == dom]
                if not hit:
                    found.append((f"?@0x{pos:X}", None))
                    break
                r = hit[0]
                size = c07.LAYOUT[soc][r][1]
                slot = data[pos - start:pos - start + size]
                m = refcbor.decode_at(slot, 0)
                found.append((r, m.items[2][1].value))
                pos += size
    return found


def run_pair(case, agg):
    from suit_generator import cmd_mpi, cmd_image
    v, c = VENDORS[case["v"]], CLASSES[case["c"]]
    key = h8("c13", case["v"], case["c"])
    want_v, want_c = refuuid.vid(v), refuuid.cid(v, c)
    label = f"vendor={v[:24]!r} class={c[:24]!r}"
    problems = []
    with fresh_dir("c13") as d:
        # (1) manifest
        desc = gen.minimal(man={"suit-manifest-component-id": ["INSTLD_MFST", {"RFC4122_UUID": {"namespace": v, "name": c}}],
                                "suit-validate": [{"suit-directive-override-parameters": {
                                    "suit-parameter-vendor-identifier": {"RFC4122_UUID": v},
                                    "suit-parameter-class-identifier": {"RFC4122_UUID": {"namespace": v, "name": c}},
                                    "suit-parameter-device-identifier": {"RFC4122_UUID": {"name": v}}}}]})
        try:
            if seed_slice(case["i"], 5):
                b = impl.tool_create_main(desc, d, "yaml" if case["i"] % 2 else "json")
            else:
                b = impl.tool_create(desc)
            env, raw = impl.envelope_members(b)
            man = refcbor.decode(env.get(3).value)
            cid = man.get(5).items[1].value
            pm = refcbor.decode(man.get(7).value).items[1]
            if cid != want_c:
                problems.append(("manifest-component-id", f"component ID class UUID {cid.hex()} != {want_c.hex()}"))
            if pm.get(1).value != want_v:
                problems.append(("manifest-vendor-parameter", f"vendor identifier {pm.get(1).value.hex()} != {want_v.hex()}"))
            if pm.get(2).value != want_c:
                problems.append(("manifest-class-parameter", f"class identifier {pm.get(2).value.hex()} != {want_c.hex()}"))
            if pm.get(24).value != want_v:
                problems.append(("manifest-name-only-form", f"name-only UUID {pm.get(24).value.hex()} != UUIDv5(DNS, name) {want_v.hex()}"))
        except Exception as e:
            problems.append(("manifest-failed", f"create failed: {type(e).__name__}: {str(e)[:200]}"))
        # (2) MPI
        try:
            mf = os.path.join(d, "mpi.hex")
            cmd_mpi.MpiGenerator.generate(mf, v, c, 0x1000, 48, True, False, "update")
            mem = refhex.read_hex_file(mf)
            rec = bytes(mem[0x1000 + i] for i in range(48))
            if rec[16:32] != want_v:
                problems.append(("mpi-vendor", f"MPI vendor UUID {rec[16:32].hex()} != {want_v.hex()}"))
            if rec[32:48] != want_c:
                problems.append(("mpi-class", f"MPI class UUID {rec[32:48].hex()} != {want_c.hex()}"))
        except Exception as e:
            problems.append(("mpi-failed", f"mpi generate failed: {type(e).__name__}: {str(e)[:200]}"))
        # (3) role lookup through the build configuration, each configurable role in turn
        try:
            eb = impl.tool_create(c07.role_desc(v, c))
            ep = os.path.join(d, "e.suit")
            open(ep, "wb").write(eb)
            for role in CONFIGURABLE + ["APP_ROOT"]:
                kc = os.path.join(d, "sysbuild.config")      # ONE path, rewritten for every role (a regenerated build configuration)
                with open(kc, "w", encoding="utf-8") as fh:
                    fh.write(f'SB_CONFIG_SUIT_MPI_{c07.kconfig_name(role)}_VENDOR_NAME="{v}"\nSB_CONFIG_SUIT_MPI_{c07.kconfig_name(role)}_CLASS_NAME="{c}"\n')
                    fh.write(f'# SB_CONFIG_SUIT_MPI_{c07.kconfig_name(role)}_VENDOR_NAME="commented-out.example"\n'
                             f'#SB_CONFIG_SUIT_MPI_{c07.kconfig_name(role)}_CLASS_NAME="commented_out"\n# CONFIG_OTHER is not set\n')
                outd = os.path.join(d, f"out_{role}")
                os.makedirs(outd)
                cmd_image.ImageCreator.create_files_for_boot([ep], outd, 0x0E1ED000, kc, "nrf54h20")
                found = find_role(outd, "nrf54h20", 0x0E1ED000)
                if [r for r, _ in found] != [role]:
                    problems.append(("role-lookup", f"configured for {role}, envelope landed in {[r for r, _ in found]}"))
        except Exception as e:
            problems.append(("role-lookup-failed", f"image boot with the configured pair failed: {type(e).__name__}: {str(e)[:200]}"))
    if problems:
        agg.viol(f"C13:{problems[0][0]}", f"{label}: " + "; ".join(p[1] for p in problems[:3]))
    else:
        agg.ok(key, "ok:3-sites-agree", sample={"vendor": v[:30], "class": c[:30], "class_uuid": want_c.hex()} if case["v"] == 3 else None)


# -- the names as typed on a command line -------------------------------------------------------------

def run_cli_pair(case, agg):
    """`mpi generate --vendor-name V --class-name C` through the real argument parser: the record carries the UUIDs of
    exactly the typed names (blanks, case, dots, digits and all)"""
    v, c = VENDORS[case["v"]], CLASSES[case["c"]]
    want_v, want_c = refuuid.vid(v), refuuid.cid(v, c)
    with fresh_dir("c13cli") as d:
        mf = os.path.join(d, "mpi.hex")
        rc, so, se = impl.cli(["mpi", "generate", "--output-file", mf, "--vendor-name", v, "--class-name", c,
                               "--address", "0x1000", "--size", "48"], d)
        if rc != 0:
            agg.viol("C13:cli/mpi-generate-failed", f"vendor={v[:24]!r} class={c[:24]!r}: rc={rc} {se[-300:]}")
            return
        mem = refhex.read_hex_file(mf)
    rec = bytes(mem.get(0x1000 + i, 0) for i in range(48))
    if rec[16:32] != want_v:
        agg.viol("C13:cli/mpi-vendor", f"vendor={v[:24]!r} class={c[:24]!r}: CLI MPI vendor UUID {rec[16:32].hex()} != {want_v.hex()}")
    elif rec[32:48] != want_c:
        agg.viol("C13:cli/mpi-class", f"vendor={v[:24]!r} class={c[:24]!r}: CLI MPI class UUID {rec[32:48].hex()} != {want_c.hex()}")
    else:
        agg.ok(h8("c13cli", case["v"], case["c"]), "ok:cli", sample={"vendor": v[:30], "class": c[:30]} if case["v"] == 8 and case["c"] == 9 else None)


# -- configurations ----------------------------------------------------------------------------------

def cfg_cases(tier):
    return [{"a": list(a)} for a in itertools.product(range(4), repeat=3)]


def run_cfg(case, agg):
    from suit_generator import cmd_image
    assign = case["a"]
    key = h8("c13c", case)
    dup = len(set(assign)) != 3
    label = f"configuration {dict(zip(CONFIGURABLE, [POOL[i] for i in assign]))}"
    with fresh_dir("c13c") as d:
        kc = os.path.join(d, "cfg.config")
        with open(kc, "w") as fh:
            for role, pi in zip(CONFIGURABLE, assign):
                fh.write(f'SB_CONFIG_SUIT_MPI_{role}_VENDOR_NAME="{POOL[pi][0]}"\nSB_CONFIG_SUIT_MPI_{role}_CLASS_NAME="{POOL[pi][1]}"\n')
        results = {}
        for pi, (v, c) in enumerate(POOL):
            ep = os.path.join(d, f"e{pi}.suit")
            open(ep, "wb").write(impl.tool_create(c07.role_desc(v, c)))
            outd = os.path.join(d, f"out{pi}")
            os.makedirs(outd)
            try:
                cmd_image.ImageCreator.create_files_for_boot([ep], outd, 0x0E1ED000, kc, "nrf54h20")
                results[pi] = [r for r, _ in find_role(outd, "nrf54h20", 0x0E1ED000)]
            except BaseException as e:
                if isinstance(e, KeyboardInterrupt):
                    raise
                results[pi] = "rejected" if not os.listdir(outd) else "rejected-but-files"
    problems = []
    for pi in range(4):
        if dup:
            want = "rejected"
        elif pi in assign:
            want = [CONFIGURABLE[assign.index(pi)]]
        elif pi == 2:
            want = ["APP_LOCAL_1"]          # the default assignment of that pair
        else:
            want = "rejected"
        if results[pi] != want:
            problems.append((("duplicate-pair-accepted" if dup else "assignment"), f"envelope of {POOL[pi]}: {results[pi]}, expected {want}"))
    if problems:
        agg.viol(f"C13:config/{problems[0][0]}", f"{label}: " + "; ".join(p[1] for p in problems[:3]))
    else:
        agg.ok(key, "ok:duplicate-rejected" if dup else "ok:assignment", sample={"assignment": assign, "results": {str(k): v for k, v in results.items()}} if assign == [2, 0, 3] else None)


def plan(tier):
    return [
        CaseStage("name-pairs", lambda: pair_cases(tier), run_pair, disjoint=True, rule="vendor x class, three derivation sites"),
        CaseStage("cli-names", lambda: pair_cases(tier), run_cli_pair, chunk=2, disjoint=True,
                  rule="vendor x class typed as real command-line arguments of mpi generate"),
        CaseStage("configurations", lambda: cfg_cases(tier), run_cfg, disjoint=True, rule="4^3 assignments of the configurable roles x 4 probe envelopes"),
    ]
