"""C16 - update-candidate info and DFU partition images describe the envelope file."""
from __future__ import annotations

import itertools
import os
import struct

from .. import refhex
from .. import core
from ..core import BfsStage, CaseStage, fresh_dir, h8, seed_slice

LEVEL = "exploration"
RULE = ("full product envelope size x partition address x info address x cache count through "
        "ImageCreator.create_files_for_update and (rotating slice) cmd_image.main; both hex files are read back with "
        "the verifier's Intel-HEX reader and compared byte-for-byte with the reference record/file; non-trivial = "
        "both files were produced and read; distinct = distinct parameter tuples; plus breadth-first histories of generations in one process on one "
        "set of paths (envelope file rebuilt with another size between steps): after every step both files describe the file as it is now")
ASSUMPTIONS = ["svmc/refhex.py reads Intel HEX correctly (record types 00-05, checksums, duplicate detection)",
               "address + size stays within 32 bits (as in the property)"]
BOUNDS = {"quick": "histories depth 2; 11 sizes x 9 partition addresses x 4 info addresses x caches {0,1,6,16}",
          "thorough": "histories depth 3; 11 sizes x 9 partition addresses x 4 info addresses x caches 0..16"}

SIZES = [0, 1, 2, 15, 16, 17, 65534, 65535, 65536, 65537, 131077]
PART = [0, 1, 0xFFF0, 0xFFFF, 0x10000, 0x00FFFFF0, 0x01000000, 0x0E100000, "top"]
INFO = ["default", 0xFFFC, 0x00FFFFFC, "top"]


STYLES = ["pattern", "all-ff", "all-00", "ff-run-at-both-ends", "ff-run-across-64k", "hex-text"]


def content(n, style="pattern"):
    b = bytearray((i * 31 + (i >> 8) * 7 + 3) & 0xFF for i in range(n))
    if style == "all-ff":                       # an envelope file is what it is - also when it looks like erased flash
        b[:] = b"\xff" * n
    elif style == "all-00":
        b[:] = bytes(n)
    elif style == "ff-run-at-both-ends":
        k = min(40, n)
        b[:k] = b"\xff" * k
        b[n - k:] = b"\xff" * k
    elif style == "ff-run-across-64k":
        for i in range(max(0, 65536 - 48), min(n, 65536 + 48)):
            b[i] = 0xFF
    elif style == "hex-text":                   # looks like an Intel-HEX text file itself
        t = b":020000040E10DC\n:10000000" + b"FF" * 16 + b"00\n:00000001FF\n"
        b[:] = (t * (n // len(t) + 1))[:n]
    return bytes(b)


def cases(tier):
    caches = [0, 1, 6, 16] if tier == "quick" else list(range(17))
    out = []
    for i, (s, p, a, c) in enumerate(itertools.product(SIZES, PART, INFO, caches)):
        out.append({"size": s, "part": p, "info": a, "caches": c, "i": i})
    # what the bytes of the envelope file look like (erased flash, zeros, an Intel-HEX text): sizes x partition addresses
    i = len(out)
    for st in STYLES[1:]:
        for s in (1, 16, 17, 65535, 65537, 131077):
            for p in (0, 0xFFF0, 0x00FFFFF0, 0x0E100000):
                out.append({"size": s, "part": p, "info": "default", "caches": 1, "i": i, "style": st})
                i += 1
    return out


def run(case, agg):
    from suit_generator import cmd_image
    size, nc = case["size"], case["caches"]
    part = (2**32 - size if size else 2**32 - 1) if case["part"] == "top" else case["part"]
    reclen = 16 + 8 * nc
    info = {"default": cmd_image.ImageCreator.default_update_candidate_info_address, "top": 2**32 - reclen}.get(case["info"], case["info"])
    key = h8("c16", size, part, info, nc, case.get("style"))
    data = content(size, case.get("style", "pattern"))
    with fresh_dir("c16") as d:
        from .. import impl as _impl
        inp, sto, dfu = (os.path.join(d, _impl.odd_name(st, ext, case["i"])) for st, ext in (("e", "suit"), ("storage", "hex"), ("dfu", "hex")))
        open(inp, "wb").write(data)
        if case["i"] % 3 == 1:
            from .. import impl
            impl.prefill(sto)
            impl.prefill(dfu)
        elif case["i"] % 11 == 0 and size:
            dfu = inp            # in-place conversion: the partition image replaces the envelope file
        try:
            if seed_slice(case["i"], 5):
                cmd_image.main(image="update", input_file=inp, storage_output_file=sto, dfu_partition_output_file=dfu,
                               update_candidate_info_address=info, dfu_partition_address=part, dfu_max_caches=nc)
                path = "main"
            else:
                cmd_image.ImageCreator.create_files_for_update(inp, sto, dfu, info, part, nc)
                path = "api"
        except Exception as e:
            agg.viol(f"C16:crash/{type(e).__name__}", f"{case} (part=0x{part:X} info=0x{info:X}): {e}")
            return
        try:
            smem = refhex.read_hex_file(sto)
            dmem = refhex.read_hex_file(dfu)
        except refhex.HexError as e:
            agg.viol("C16:malformed-hex", f"{case}: {e}")
            return
    want_rec = struct.pack("<IIII", 0x55AA55AA, 1, part, size) + b"\x00" * (8 * nc)
    want_s = {info + i: b for i, b in enumerate(want_rec)}
    want_d = {part + i: b for i, b in enumerate(data)}
    if smem != want_s:
        got = refhex.regions(smem)
        agg.viol("C16:storage-record", f"{case} (part=0x{part:X} info=0x{info:X}): storage file regions "
                 f"{[(hex(a), b[:40].hex()) for a, b in got][:3]} expected {hex(info)}:{want_rec[:40].hex()}")
    elif dmem != want_d:
        got = refhex.regions(dmem)
        agg.viol("C16:dfu-partition", f"{case} (part=0x{part:X}): partition file regions "
                 f"{[(hex(a), len(b)) for a, b in got][:4]} expected {hex(part)}+{size}")
    else:
        agg.ok(key, f"ok:{path}", sample={"size": size, "partition": hex(part), "info": hex(info), "caches": nc})


# -- histories in one process: the same paths used again and again ------------------------------------
H_OPS = [(size, part, nc) for size in (300, 785, 0) for part in (0x1000, 0x0E100000) for nc in (1, 6)]


def hist_init():
    return [((), ("start",))]


def hist_step(hist, agg, expand):
    """a history of image-update generations in ONE process on ONE set of paths (the envelope file is rebuilt with
    other content and size between the steps, as in an incremental build): after every step both files describe the
    envelope file as it is NOW"""
    from suit_generator import cmd_image
    hist = core.tuplify(hist)
    if hist:
        with fresh_dir("c16h") as d:
            inp, sto, dfu = (os.path.join(d, x) for x in ("e.suit", "storage.hex", "dfu.hex"))
            for n, i in enumerate(hist):
                size, part, nc = H_OPS[i]
                data = bytes((b + n) & 0xFF for b in content(size))
                open(inp, "wb").write(data)
                info = 0x0E1EF340
                try:
                    if n % 2:
                        cmd_image.main(image="update", input_file=inp, storage_output_file=sto, dfu_partition_output_file=dfu,
                                       update_candidate_info_address=info, dfu_partition_address=part, dfu_max_caches=nc)
                    else:
                        cmd_image.ImageCreator.create_files_for_update(inp, sto, dfu, info, part, nc)
                    smem, dmem = refhex.read_hex_file(sto), refhex.read_hex_file(dfu)
                except Exception as e:
                    agg.viol(f"C16:history/failed/{type(e).__name__}", f"history {[H_OPS[j] for j in hist[:n + 1]]}: {type(e).__name__}: {e}")
                    return []
                want_rec = struct.pack("<IIII", 0x55AA55AA, 1, part, size) + b"\x00" * (8 * nc)
                if smem != {info + k: b for k, b in enumerate(want_rec)}:
                    got = refhex.regions(smem)
                    agg.viol("C16:history/storage-record", f"history {[H_OPS[j] for j in hist[:n + 1]]} on one set of paths: after step {n + 1} the record is "
                             f"{[(hex(a), b[:24].hex(), len(b)) for a, b in got][:2]}, the envelope file has {size} bytes now (expected {want_rec[:16].hex()}, {len(want_rec)} bytes)")
                    return []
                if dmem != {part + k: b for k, b in enumerate(data)}:
                    agg.viol("C16:history/dfu-partition", f"history {[H_OPS[j] for j in hist[:n + 1]]} on one set of paths: after step {n + 1} the partition image "
                             f"{[(hex(a), len(b)) for a, b in refhex.regions(dmem)][:3]} is not the current envelope file at {hex(part)}+{size}")
                    return []
        agg.ok(h8("c16h", hist), f"ok:depth{len(hist)}", sample={"history": [list(H_OPS[j]) for j in hist]} if hist == (0, 5) else None)
    if not expand:
        return []
    return [(f"update:{H_OPS[i]}", hist + (i,), h8("c16h", hist + (i,))) for i in range(len(H_OPS))]


def cli_cases(tier):
    out = []
    for part, info, caches in ((4096, 65536, 0), (0x10000, 0xFFFC, 1), (0, 0, 16), (305419896, 1234567, 6), (0xE100000, 0xE1EF340, 6)):
        for style in ("dec", "hex", "HEX", "oct"):
            out.append({"part": part, "info": info, "caches": caches, "style": style})
    return out


def run_cli(case, agg):
    """the addresses as a user types them: decimal, 0x.., 0X.., 0o.. (argparse converts with int(x, 0))"""
    from .. import impl
    fmt = {"dec": str, "hex": hex, "HEX": lambda v: "0X%X" % v, "oct": lambda v: "0o%o" % v}[case["style"]]
    data = content(333)
    with fresh_dir("c16c") as d:
        inp, sto, dfu = (os.path.join(d, x) for x in ("e.suit", "storage.hex", "dfu.hex"))
        open(inp, "wb").write(data)
        rc, so, se = impl.cli(["image", "update", "--input-file", inp, "--storage-output-file", sto, "--dfu-partition-output-file", dfu,
                               "--update-candidate-info-address", fmt(case["info"]), "--dfu-partition-address", fmt(case["part"]),
                               # the count as a plain decimal, zero-padded (08), with a sign (+8) or with blanks around it
                               "--dfu-max-caches", {"dec": "%d", "hex": "%02d", "HEX": "+%d", "oct": " %d "}[case["style"]] % case["caches"]], d)
        if rc != 0:
            agg.viol("C16:cli/failed", f"{case}: rc={rc} {se[-300:]}")
            return
        try:
            smem, dmem = refhex.read_hex_file(sto), refhex.read_hex_file(dfu)
        except refhex.HexError as e:
            agg.viol("C16:cli/malformed-hex", f"{case}: {e}")
            return
    want_rec = struct.pack("<IIII", 0x55AA55AA, 1, case["part"], len(data)) + b"\x00" * (8 * case["caches"])
    if smem != {case["info"] + i: b for i, b in enumerate(want_rec)}:
        agg.viol("C16:cli/storage-record", f"{case}: record {[(hex(a), b[:16].hex()) for a, b in refhex.regions(smem)][:2]} expected at {hex(case['info'])}: {want_rec[:16].hex()}")
    elif dmem != {case["part"] + i: b for i, b in enumerate(data)}:
        agg.viol("C16:cli/dfu-partition", f"{case}: partition image at {[hex(a) for a, _ in refhex.regions(dmem)][:2]}, expected {hex(case['part'])}")
    else:
        agg.ok(h8("c16cli", case), f"ok:cli:{case['style']}", sample=case if case["style"] == "dec" and case["caches"] == 6 else None)


# -- the way the paths are spelled ---------------------------------------------------------------------------
SPELLINGS = ["plain", "symlinked-dir/..", "dot-and-double-slash", "@relative", "relative-subdir"]


def run_spelling(case, agg):
    """the same three files named in different legal ways: through `link/../name` where link is a symbolic link to a
    directory elsewhere (the OS resolves .. AFTER following the link; a look-alike file sits where a textual
    normalisation would point), with ./ and //, as relative names starting with '@', from another working directory"""
    from suit_generator import cmd_image
    sp, via = case["spelling"], case["via"]
    data = content(777)
    with fresh_dir("c16p") as d:
        d = os.path.realpath(d)
        real = os.path.join(d, "store", "deep")
        os.makedirs(real)
        os.makedirs(os.path.join(d, "work"))
        os.makedirs(os.path.join(d, "@build"))
        names = ("e.suit", "storage.hex", "dfu.hex")
        if sp == "symlinked-dir/..":
            os.symlink(real, os.path.join(d, "work", "build"))          # work/build -> store/deep ; work/build/.. == store
            where = os.path.join(d, "store")
            paths = [os.path.join(d, "work", "build", "..", n) for n in names]
            open(os.path.join(d, "work", "e.suit"), "wb").write(b"LOOK-ALIKE " * 9)     # what normpath() would name
        elif sp == "dot-and-double-slash":
            where = os.path.join(d, "work")
            paths = [d + "//work/./" + n for n in names]
        elif sp == "@relative":
            where = os.path.join(d, "@build")
            paths = ["@build/" + n for n in names]
        elif sp == "relative-subdir":
            where = os.path.join(d, "work")
            paths = ["work/../work/" + n for n in names]
        else:
            where = os.path.join(d, "work")
            paths = [os.path.join(where, n) for n in names]
        open(os.path.join(where, "e.suit"), "wb").write(data)
        old = os.getcwd()
        os.chdir(d)
        try:
            if via == "cli":
                from .. import impl
                rc, so, se = impl.cli(["image", "update", "--input-file", paths[0], "--storage-output-file", paths[1], "--dfu-partition-output-file", paths[2],
                                       "--update-candidate-info-address", "0x2000", "--dfu-partition-address", "0x8000", "--dfu-max-caches", "2"], d)
                if rc != 0:
                    raise RuntimeError(f"cli rc={rc}: {se[-300:]}")
            elif via == "main":
                cmd_image.main(image="update", input_file=paths[0], storage_output_file=paths[1], dfu_partition_output_file=paths[2],
                               update_candidate_info_address=0x2000, dfu_partition_address=0x8000, dfu_max_caches=2)
            else:
                cmd_image.ImageCreator.create_files_for_update(paths[0], paths[1], paths[2], 0x2000, 0x8000, 2)
            smem = refhex.read_hex_file(os.path.join(where, "storage.hex"))
            dmem = refhex.read_hex_file(os.path.join(where, "dfu.hex"))
        except Exception as e:
            agg.viol(f"C16:path-spelling/failed/{type(e).__name__}", f"{case}: {type(e).__name__}: {str(e)[-250:]}")
            return
        finally:
            os.chdir(old)
    want_rec = struct.pack("<IIII", 0x55AA55AA, 1, 0x8000, len(data)) + b"\x00" * 16
    if smem != {0x2000 + i: b for i, b in enumerate(want_rec)}:
        agg.viol("C16:path-spelling/storage-record", f"{case}: record {[(hex(a), b[:16].hex()) for a, b in refhex.regions(smem)][:2]} does not describe the named envelope file ({len(data)} bytes)")
    elif dmem != {0x8000 + i: b for i, b in enumerate(data)}:
        agg.viol("C16:path-spelling/dfu-partition", f"{case}: the partition image is not the named envelope file")
    else:
        agg.ok(h8("c16p", case), f"ok:{sp}", sample=case if via == "cli" and sp == "symlinked-dir/.." else None)


def plan(tier):
    return [CaseStage("update-images", lambda: cases(tier), run, disjoint=True, rule=RULE),
            BfsStage("update-histories", hist_init, hist_step, max_depth=2 if tier == "quick" else 3,
                     rule="histories of image-update generations in one process on one set of paths: 12 (size, partition address, caches) tuples, envelope file rebuilt between steps"),
            CaseStage("path-spellings", [{"spelling": s_, "via": v} for s_ in SPELLINGS for v in ("api", "main", "cli")], run_spelling,
                      rule="5 legal spellings of the three paths (symlinked directory + .., ./ and //, @-relative, relative) x API / main / CLI"),
            CaseStage("cli-address-syntax", lambda: cli_cases(tier), run_cli, rule="real CLI, addresses typed as decimal / 0x / 0X / 0o")]
