"""C06 - encryption artifacts are mutually consistent and decrypt to the firmware."""
from __future__ import annotations

import itertools
import os

from .. import gen, impl, refcbor, refcose, registry, keys as vkeys
from ..core import CaseStage, fresh_dir, h8, seed_slice
from ..refcbor import enc

LEVEL = "exploration"
RULE = ("full product plaintext length x 32-bit key id at CBOR width boundaries x 5 digest algorithms x sub-command "
        "{encrypt-and-generate, generate-info (direct and aes-kw-256)} x entry path {Encryptor object, cmd_encrypt.main "
        "with files, CLI subprocess slice}. Oracle: the verifier's reader decodes suit_encryption_info.bin as "
        "bstr(96([bstr({1:3}), {5: iv(12)}, nil, [[h'', {1: -6, 4: bstr(cbor(kid))}, nil]]])); AAD = Enc_structure "
        "['Encrypt', protected-as-published, h''] built by the verifier from the PUBLISHED header; independent "
        "AESGCM.decrypt(key, iv, ct||tag, AAD) must return the plaintext where tag||ct is encrypted_content.bin; digest/"
        "size files describe the plaintext; create with suit-parameter-encryption-info {file:...} carries the file "
        "bytes unchanged under key 19 (+ file_direct digest/size pipeline); generate-info outputs are byte slices of "
        "the supplied blob. distinct = distinct parameter tuples; non-trivial = artifacts produced and decrypted")
ASSUMPTIONS = ["cryptography AESGCM", "hashlib", "svmc/refcbor.py"]
BOUNDS = {"quick": "11 lengths x 9 key ids x 5 algorithms x 2 paths; generate-info 4 blob lengths x 9 key ids x 2 kw algorithms",
          "thorough": "every length 0..80 + 18 boundary lengths up to 1 MiB x 18 key ids x 5 algorithms x 2 paths; generate-info blob lengths 28..61 + boundaries x 18 key ids x 2 kw algorithms"}

LENS = [0, 1, 15, 16, 17, 31, 32, 255, 256, 4096, 65537]
KIDS = [0, 1, 23, 24, 255, 256, 65535, 65536, 2**32 - 1]
HALGS = ["sha-256", "sha-384", "sha-512", "shake128", "shake256"]
HCODE = {"sha-256": -16, "sha-384": -43, "sha-512": -44, "shake128": -18, "shake256": -45}
HNAME = {"sha-256": "cose-alg-sha-256", "sha-384": "cose-alg-sha-384", "sha-512": "cose-alg-sha-512", "shake128": "cose-alg-shake128",
         "shake256": "cose-alg-shake256"}


def escripts():
    r = os.environ["SVMC_REPO"]
    return os.path.join(r, "ncs", "encrypt_script.py"), os.path.join(r, "ncs", "basic_kms.py")


def plaintext(n, salt=0):
    return bytes((i * 17 + salt * 5 + 3) % 256 for i in range(n))


def parse_info(info: bytes):
    """-> dict(protected=bytes, iv=bytes, recipients=[(prot bytes, alg, kid bstr content, ciphertext)], problems=[...])"""
    problems = []
    try:
        outer = refcbor.decode(info)
    except refcbor.CborError as e:
        return None, [f"encryption info is not one CBOR item: {e}"]
    if outer.kind != "bstr":
        return None, ["encryption info is not a byte string"]
    try:
        t = refcbor.decode(outer.value)
    except refcbor.CborError as e:
        return None, [f"encryption info content undecodable: {e}"]
    if t.kind != "tag" or t.value != 96:
        return None, [f"content is not tag 96 (COSE_Encrypt) but {t.kind} {t.value}"]
    a = t.items[0]
    if a.kind != "array" or len(a.items) != 4:
        return None, ["COSE_Encrypt is not a 4-element array"]
    prot, unprot, ct, rcps = a.items
    if prot.kind != "bstr":
        return None, ["protected bucket is not a byte string"]
    try:
        pm = refcbor.to_py(refcbor.decode(prot.value))
    except refcbor.CborError:
        pm = None
    if pm != {1: 3}:
        problems.append(f"protected header is {pm!r}, expected {{1: 3}} (AES-GCM-256)|protected")
    um = refcbor.to_py(unprot) if unprot.kind == "map" else None
    if not isinstance(um, dict) or set(um) != {5} or not isinstance(um[5], bytes) or len(um[5]) != 12:
        problems.append(f"unprotected header is {um!r}, expected {{5: 12-byte IV}}|unprotected")
    if not (ct.kind == "simple" and ct.value == 22):
        problems.append("COSE_Encrypt ciphertext is not nil (detached)|ciphertext")
    rl = []
    if rcps.kind != "array" or len(rcps.items) != 1:
        problems.append("recipients is not a one-element array|recipients")
    else:
        r = rcps.items[0]
        if r.kind != "array" or len(r.items) != 3:
            problems.append("recipient is not a 3-element array|recipients")
        else:
            rp, ru, rc = r.items
            if rp.kind != "bstr" or rp.value != b"":
                problems.append("recipient protected bucket is not h''|recipients")
            rum = refcbor.to_py(ru) if ru.kind == "map" else None
            rl.append((rum, refcbor.to_py(rc)))
    if refcbor.is_canonical(info):
        problems.append("not definite-length shortest-form: " + refcbor.is_canonical(info) + "|non-canonical")
    return {"protected": prot.value, "iv": um.get(5) if isinstance(um, dict) else None, "recipients": rl}, problems


def check_artifacts(outdir, key, pt, kid, halg, kw="direct", cek=None):
    """-> list of (tag, text)"""
    out = []

    def rd(n):
        p = os.path.join(outdir, n)
        return open(p, "rb").read() if os.path.exists(p) else None
    info, content = rd("suit_encryption_info.bin"), rd("encrypted_content.bin")
    if info is None or content is None:
        return [("missing-file", "suit_encryption_info.bin / encrypted_content.bin missing")]
    pi, problems = parse_info(info)
    for p in problems:
        out.append((p.rsplit("|", 1)[-1], p.rsplit("|", 1)[0]))
    if pi is None:
        return [("info-structure", problems[0])]
    if pi["recipients"]:
        rum, rc = pi["recipients"][0]
        want = {1: -6 if kw == "direct" else -5, 4: enc(kid)}
        if rum != want:
            out.append(("recipient-header", f"recipient header {rum!r}, expected {want!r} (key id as bstr-wrapped integer)"))
        if rc != cek:
            out.append(("recipient-ciphertext", f"recipient ciphertext {rc!r}, expected {cek!r}"))
    if pt is not None and pi["iv"] is not None:
        if len(content) < 16:
            out.append(("content-length", "encrypted content shorter than a tag"))
        else:
            aad = refcose.enc_structure(pi["protected"])
            dec = refcose.aes_gcm_decrypt(key, pi["iv"], content[16:], content[:16], aad)
            if dec is None:
                out.append(("decrypt", "AES-GCM decryption with the published IV, the Enc_structure of the published protected header and tag||ciphertext fails"))
            elif dec != pt:
                out.append(("decrypt", "decrypts to something else than the firmware"))
        dg, sz = rd("plain_text_digest.bin"), rd("plain_text_size.txt")
        if dg != registry.digest(HCODE[halg], pt):
            out.append(("digest-file", f"plain_text_digest.bin is not {halg} of the plaintext"))
        if sz is None or sz.decode().strip() != str(len(pt)):
            out.append(("size-file", f"plain_text_size.txt is {sz!r}, plaintext has {len(pt)} bytes"))
    return out, info


def enc_cases(tier):
    out = []
    i = 0
    lens, kids = LENS, KIDS
    if tier == "thorough":
        lens = sorted(set(LENS) | set(range(0, 81)) | {257, 1023, 1024, 4095, 4097, 65535, 65536, 1 << 20})
        kids = KIDS + [2, 22, 25, 254, 257, 2**31 - 1, 2**31, 0x7FFFFFE0, 0x40000000]
    for L, kid, h in itertools.product(lens, kids, HALGS):
        for path in ("object", "main"):
            out.append({"L": L, "kid": kid, "h": h, "path": path, "i": i})
            i += 1
    return out


def _encryptor():
    from suit_generator import cmd_encrypt
    return cmd_encrypt._import_encryptor(escripts()[0])


def run_enc(case, agg):
    from suit_generator import cmd_encrypt
    from suit_generator.suit_encrypt_script_base import SuitDigestAlgorithms, SuitKWAlgorithms
    L, kid, h = case["L"], case["kid"], case["h"]
    pt = plaintext(L, kid % 7)
    key = h8("c06", {k: case[k] for k in ("L", "kid", "h", "path")})
    label = f"encrypt-and-generate len={L} kid={kid} hash={h} via {case['path']}"
    es, ks = escripts()
    kd = vkeys.key_dir()
    with fresh_dir("c06") as d:
        od = os.path.join(d, "out")
        os.makedirs(od)
        fw = os.path.join(d, "fw.bin")
        open(fw, "wb").write(pt)
        try:
            if case["path"] == "main":
                if seed_slice(case["i"], 149):
                    rc, so, se = impl.cli(["encrypt", "encrypt-and-generate", "--firmware", fw, "--key-name", "aes", "--key-id", str(kid), "--context", kd,
                                           "--output-dir", od, "--hash-alg", h, "--kms-script", ks, "--encrypt-script", es], d)
                    if rc != 0:
                        raise RuntimeError(f"cli rc={rc}: {se[-300:]}")
                else:
                    cmd_encrypt.main(encrypt_subcommand="encrypt-and-generate", firmware=fw, key_name="aes", key_id=kid, context=kd,
                                     output_dir=od, hash_alg=h, kw_alg="direct", kms_script=ks, encrypt_script=es)
            else:
                e = _encryptor()
                ep, tag, info, dg, n = e.encrypt_and_generate(pt, "aes", kid, kd, SuitDigestAlgorithms(h), SuitKWAlgorithms("direct"), ks)
                open(os.path.join(od, "plain_text_digest.bin"), "wb").write(dg)
                open(os.path.join(od, "plain_text_size.txt"), "w").write(str(n))
                open(os.path.join(od, "suit_encryption_info.bin"), "wb").write(info)
                open(os.path.join(od, "encrypted_content.bin"), "wb").write(tag + ep)
        except Exception as e:
            agg.viol(f"C06:encrypt-failed/{type(e).__name__}", f"{label}: {type(e).__name__}: {str(e)[:300]}")
            return
        r = check_artifacts(od, vkeys.aes_key("aes"), pt, kid, h)
        problems, info = r if isinstance(r, tuple) else (r, None)
        if not problems and case["path"] == "main":
            # pipeline: create consumes the artifacts (raw encryption info, digest and size read directly from the files)
            desc = gen.in_params({
                "suit-parameter-encryption-info": {"file": os.path.join(od, "suit_encryption_info.bin")},
                "suit-parameter-image-digest": gen.digest(HNAME[h], {"file_direct": os.path.join(od, "plain_text_digest.bin")}),
                "suit-parameter-image-size": {"file_direct": os.path.join(od, "plain_text_size.txt")}})
            try:
                envb = impl.tool_create(desc)
                env, raw = impl.envelope_members(envb)
                man = refcbor.decode(env.get(3).value)
                seq = refcbor.decode(man.get(7).value)
                pm = seq.items[1]
                if pm.get(19).raw(man.get(7).value) != info:
                    problems.append(("create-alters-info", "create does not carry suit_encryption_info.bin unchanged under parameter 19"))
                dgi = refcbor.decode(pm.get(3).value)
                if dgi.items[1].value != registry.digest(HCODE[h], pt) or pm.get(14).value != len(pt):
                    problems.append(("create-pipeline", "digest/size taken from the artifact files do not describe the plaintext"))
                # and parse shows the raw info as the same COSE_Encrypt (round trip of the raw parameter)
                again = impl.tool_create(impl.tool_parse_obj(envb))
                if again != envb:
                    problems.append(("create-pipeline-roundtrip", "parse->create of the envelope carrying the raw encryption info changes it"))
            except Exception as e:
                problems.append(("create-rejects-info", f"create with the artifacts failed: {type(e).__name__}: {str(e)[:200]}"))
    if problems:
        agg.viol(f"C06:{problems[0][0]}", f"{label}: " + "; ".join(p[1] for p in problems[:3]))
    else:
        agg.ok(key, f"ok:{case['path']}", sample={"len": L, "kid": kid, "hash": h, "path": case["path"]} if (L == 17 and kid == 256) else None)


def gi_cases(tier):
    out = []
    i = 0
    bls, kids = [28, 29, 44, 4124], KIDS
    if tier == "thorough":
        bls = sorted(set(bls) | set(range(28, 62)) | {283, 284, 65564, 65565})
        kids = KIDS + [2, 22, 25, 254, 257, 2**31 - 1, 2**31, 0x7FFFFFE0, 0x40000000]
    for bl, kid, kw in itertools.product(bls, kids, ("direct", "aes-kw-256")):
        for path in ("object", "main"):
            out.append({"bl": bl, "kid": kid, "kw": kw, "path": path, "i": i})
            i += 1
    return out


def run_gi(case, agg):
    from suit_generator import cmd_encrypt
    from suit_generator.suit_encrypt_script_base import SuitKWAlgorithms
    bl, kid, kw = case["bl"], case["kid"], case["kw"]
    blob = bytes((i * 29 + 11) % 256 for i in range(bl))
    cek = bytes((i * 3 + 200) % 256 for i in range(40))
    key = h8("c06g", {k: case[k] for k in ("bl", "kid", "kw", "path")})
    label = f"generate-info blob={bl}B kid={kid} kw={kw} via {case['path']}"
    es, ks = escripts()
    with fresh_dir("c06g") as d:
        od = os.path.join(d, "out")
        os.makedirs(od)
        fb, fk = os.path.join(d, "enc.bin"), os.path.join(d, "key.bin")
        open(fb, "wb").write(blob)
        open(fk, "wb").write(cek)
        try:
            if case["path"] == "main":
                cmd_encrypt.main(encrypt_subcommand="generate-info", encrypted_firmware=fb, encrypted_key=fk, key_id=kid, kw_alg=kw,
                                 output_dir=od, encrypt_script=es)
            else:
                e = _encryptor()
                ec, tag, info = e.generate(blob, cek, kid, SuitKWAlgorithms(kw))
                open(os.path.join(od, "suit_encryption_info.bin"), "wb").write(info)
                open(os.path.join(od, "encrypted_content.bin"), "wb").write(tag + ec)
        except Exception as e:
            agg.viol(f"C06:generate-info-failed/{type(e).__name__}", f"{label}: {type(e).__name__}: {str(e)[:300]}")
            return
        r = check_artifacts(od, None, None, kid, None, kw=kw, cek=cek)
        problems, info = r if isinstance(r, tuple) else (r, None)
        content = open(os.path.join(od, "encrypted_content.bin"), "rb").read()
    if not problems:
        pi, _ = parse_info(info)
        if pi["iv"] != blob[:12]:
            problems.append(("generate-info-iv", "published IV is not the first 12 bytes of the supplied blob"))
        if content != blob[12:]:
            problems.append(("generate-info-content", "encrypted_content.bin is not tag||ciphertext of the supplied blob, byte for byte"))
    if problems:
        agg.viol(f"C06:{problems[0][0]}", f"{label}: " + "; ".join(p[1] for p in problems[:3]))
    else:
        agg.ok(key, f"ok:generate-info:{case['path']}", sample={"blob": bl, "kid": kid, "kw": kw} if kid == 24 and bl == 29 else None)


# -- output directory reused (a second run into a directory that already holds longer artifacts) ----------------

def create_from_artifacts(od, hname, workdir=None):
    """create consumes the artifact files of `od` -> problems (compared with the files as they are on disk NOW)"""
    problems = []
    desc = gen.in_params({
        "suit-parameter-encryption-info": {"file": os.path.join(od, "suit_encryption_info.bin")},
        **({"suit-parameter-image-digest": gen.digest(hname, {"file_direct": os.path.join(od, "plain_text_digest.bin")}),
            "suit-parameter-image-size": {"file_direct": os.path.join(od, "plain_text_size.txt")}} if hname else {})})
    try:
        envb = impl.tool_create_main(desc, workdir, "yaml") if workdir else impl.tool_create(desc)
        env, raw = impl.envelope_members(envb)
        man = refcbor.decode(env.get(3).value)
        seq = refcbor.decode(man.get(7).value)
        pm = seq.items[1]
        if pm.get(19).raw(man.get(7).value) != open(os.path.join(od, "suit_encryption_info.bin"), "rb").read():
            problems.append(("create-alters-info", "create does not carry the suit_encryption_info.bin that is in the directory under parameter 19"))
        if hname:
            dgi = refcbor.decode(pm.get(3).value)
            if dgi.items[1].value != open(os.path.join(od, "plain_text_digest.bin"), "rb").read() or str(pm.get(14).value) != open(os.path.join(od, "plain_text_size.txt")).read().strip():
                problems.append(("create-pipeline", "digest/size in the envelope are not those of the artifact files in the directory"))
    except Exception as e:
        problems.append(("create-rejects-info", f"create with the artifacts failed: {type(e).__name__}: {str(e)[:200]}"))
    return problems


def rewrite_cases(tier):
    out = []
    for l1, l2 in itertools.product((5000, 16, 0), repeat=2):
        for sub1, sub2 in itertools.product(("enc", "gi"), repeat=2):
            out.append({"l1": l1, "l2": l2, "s1": sub1, "s2": sub2})
    return out


def run_rewrite(case, agg):
    from suit_generator import cmd_encrypt
    es, ks = escripts()
    kd = vkeys.key_dir()
    key = h8("c06r", case)
    label = f"two runs into one output directory: {case['s1']}({case['l1']}B) then {case['s2']}({case['l2']}B)"
    with fresh_dir("c06r") as d:
        od = os.path.join(d, "out")
        os.makedirs(od)
        last = None
        for step, (sub, L, kid, h) in enumerate(((case["s1"], case["l1"], 0x40000000, "sha-512"), (case["s2"], case["l2"], 0x17, "sha-256"))):
            pt = plaintext(L, step)
            try:
                if sub == "enc":
                    fw = os.path.join(d, f"fw{step}.bin")
                    open(fw, "wb").write(pt)
                    cmd_encrypt.main(encrypt_subcommand="encrypt-and-generate", firmware=fw, key_name="aes", key_id=kid, context=kd,
                                     output_dir=od, hash_alg=h, kw_alg="direct", kms_script=ks, encrypt_script=es)
                    last = ("enc", pt, kid, h)
                else:
                    blob = bytes((i * 7 + step) % 256 for i in range(28 + L))
                    fb, fk = os.path.join(d, f"b{step}.bin"), os.path.join(d, f"k{step}.bin")
                    open(fb, "wb").write(blob)
                    open(fk, "wb").write(b"K" * 40)
                    cmd_encrypt.main(encrypt_subcommand="generate-info", encrypted_firmware=fb, encrypted_key=fk, key_id=kid, kw_alg="direct",
                                     output_dir=od, encrypt_script=es)
                    last = ("gi", blob, kid, None)
            except Exception as e:
                agg.viol(f"C06:rewrite-failed/{type(e).__name__}", f"{label}: {type(e).__name__}: {str(e)[:200]}")
                return
            # the build step that follows every encryption: create an envelope from the artifacts of the directory
            pr = create_from_artifacts(od, HNAME[h] if sub == "enc" else None, workdir=d if step else None)
            if pr:
                agg.viol(f"C06:rewrite/{pr[0][0]}", f"{label}: create after run {step + 1}: " + "; ".join(p[1] for p in pr[:2]))
                return
        kind, data, kid, h = last
        if kind == "enc":
            r = check_artifacts(od, vkeys.aes_key("aes"), data, kid, h)
            problems = r[0] if isinstance(r, tuple) else r
        else:
            r = check_artifacts(od, None, None, kid, None, kw="direct", cek=b"K" * 40)
            problems, info = r if isinstance(r, tuple) else (r, None)
            if not problems:
                pi, _ = parse_info(info)
                if pi["iv"] != data[:12] or open(os.path.join(od, "encrypted_content.bin"), "rb").read() != data[12:]:
                    problems.append(("generate-info-content", "artifacts are not the byte slices of the supplied blob"))
    if problems:
        agg.viol(f"C06:rewrite/{problems[0][0]}", f"{label}: after the second run: " + "; ".join(p[1] for p in problems[:3]))
    else:
        agg.ok(key, "ok:rewrite", sample=case if case["l1"] == 5000 and case["l2"] == 16 and case["s1"] == "enc" and case["s2"] == "enc" else None)


# -- one Encryptor object reused -------------------------------------------------------------------------------

OBJ_OPS = ["enc-direct", "gi-direct", "gi-a256kw"]


def reuse_cases(tier):
    return [{"ops": list(p)} for n in (2, 3) for p in itertools.product(OBJ_OPS, repeat=n)]


def run_reuse(case, agg):
    from suit_generator.suit_encrypt_script_base import SuitDigestAlgorithms, SuitKWAlgorithms
    e = _encryptor()
    es, ks = escripts()
    label = f"one Encryptor object, operations {case['ops']}"
    with fresh_dir("c06o") as d:
        for step, op in enumerate(case["ops"]):
            od = os.path.join(d, f"o{step}")
            os.makedirs(od)
            kid = 100 + step
            try:
                if op == "enc-direct":
                    pt = plaintext(50 + step, step)
                    ep, tag, info, dg, n = e.encrypt_and_generate(pt, "aes", kid, vkeys.key_dir(), SuitDigestAlgorithms("sha-256"), SuitKWAlgorithms("direct"), ks)
                    open(os.path.join(od, "plain_text_digest.bin"), "wb").write(dg)
                    open(os.path.join(od, "plain_text_size.txt"), "w").write(str(n))
                    args = (vkeys.aes_key("aes"), pt, kid, "sha-256")
                    kw, cek = "direct", None
                else:
                    blob = bytes((i * 5 + step) % 256 for i in range(60))
                    kw = "direct" if op == "gi-direct" else "aes-kw-256"
                    cek = b"C" * 40
                    ep, tag, info = e.generate(blob, cek, kid, SuitKWAlgorithms(kw))
                    args = (None, None, kid, None)
                open(os.path.join(od, "suit_encryption_info.bin"), "wb").write(info)
                open(os.path.join(od, "encrypted_content.bin"), "wb").write(tag + ep)
            except Exception as ex:
                agg.viol(f"C06:object-reuse/failed/{type(ex).__name__}", f"{label}: step {step} ({op}): {type(ex).__name__}: {str(ex)[:200]}")
                return
            r = check_artifacts(od, *args, kw=kw, cek=cek)
            problems = r[0] if isinstance(r, tuple) else r
            if problems:
                agg.viol(f"C06:object-reuse/{problems[0][0]}", f"{label}: step {step} ({op}): " + "; ".join(p[1] for p in problems[:2]))
                return
    agg.ok(h8("c06o", case), "ok:object-reuse", sample=case if case["ops"] == ["gi-a256kw", "enc-direct"] else None)


def cli_default_cases(tier):
    return [{"kid": k, "ctx": c, "sub": sub} for k in ("0x7FFFFFE0", "0", "24", "0X100") for c in ("path", "json") for sub in ("enc", "gi")]


def run_cli_defaults(case, agg):
    """the real CLI with the optional arguments left out: --hash-alg defaults to sha-256, --kw-alg to direct."""
    import json as _json
    es, ks = escripts()
    kid = int(case["kid"], 0)
    ctx = vkeys.key_dir() if case["ctx"] == "path" else _json.dumps({"keys_directory": vkeys.key_dir()})
    with fresh_dir("c06d") as d:
        od = os.path.join(d, "out")
        os.makedirs(od)
        if case["sub"] == "enc":
            pt = plaintext(77, 3)
            fw = os.path.join(d, "fw.bin")
            open(fw, "wb").write(pt)
            rc, so, se = impl.cli(["encrypt", "encrypt-and-generate", "--firmware", fw, "--key-name", "aes", "--key-id", case["kid"], "--context", ctx,
                                   "--output-dir", od, "--kms-script", ks, "--encrypt-script", es], d)
            args, kw, cek = (vkeys.aes_key("aes"), pt, kid, "sha-256"), "direct", None
        else:
            blob = bytes((i * 3 + 1) % 256 for i in range(100))
            fb, fk = os.path.join(d, "b.bin"), os.path.join(d, "k.bin")
            open(fb, "wb").write(blob)
            open(fk, "wb").write(b"K" * 24)
            rc, so, se = impl.cli(["encrypt", "generate-info", "--encrypted-firmware", fb, "--encrypted-key", fk, "--key-id", case["kid"],
                                   "--output-dir", od, "--encrypt-script", es], d)
            args, kw, cek = (None, None, kid, None), "direct", b"K" * 24
        if rc != 0:
            agg.viol("C06:cli-defaults/failed", f"{case}: rc={rc} {se[-300:]}")
            return
        r = check_artifacts(od, *args, kw=kw, cek=cek)
        problems = r[0] if isinstance(r, tuple) else r
    if problems:
        agg.viol(f"C06:cli-defaults/{problems[0][0]}", f"{case}: " + "; ".join(p[1] for p in problems[:2]))
    else:
        agg.ok(h8("c06d", case), "ok:cli-defaults", sample=case if case["kid"] == "0X100" and case["sub"] == "enc" else None)


# -- key names, and inputs that live where an output will be written ------------------------------------------

def keyname_cases(tier):
    return [{"key": k, "via": v, "L": L} for k in ("aes.v2", "solo.aes", "aes.2024-06.rel") for v in ("object", "main", "cli") for L in (0, 33)]


def run_keyname(case, agg):
    """AES key names with dots (a sibling key with the truncated name present or not): the key in <key-name>.bin encrypts"""
    from suit_generator import cmd_encrypt
    from suit_generator.suit_encrypt_script_base import SuitDigestAlgorithms, SuitKWAlgorithms
    es, ks = escripts()
    kd = vkeys.key_dir()
    pt = plaintext(case["L"], 4)
    label = f"encrypt-and-generate with key name {case['key']!r} via {case['via']} ({case['L']} bytes)"
    with fresh_dir("c06k") as d:
        od = os.path.join(d, "out")
        os.makedirs(od)
        fw = os.path.join(d, "fw.bin")
        open(fw, "wb").write(pt)
        try:
            if case["via"] == "cli":
                rc, so, se = impl.cli(["encrypt", "encrypt-and-generate", "--firmware", fw, "--key-name", case["key"], "--key-id", "9", "--context", kd,
                                       "--output-dir", od, "--kms-script", ks, "--encrypt-script", es], d)
                if rc != 0:
                    raise RuntimeError(f"cli rc={rc}: {se[-300:]}")
            elif case["via"] == "main":
                cmd_encrypt.main(encrypt_subcommand="encrypt-and-generate", firmware=fw, key_name=case["key"], key_id=9, context=kd,
                                 output_dir=od, hash_alg="sha-256", kw_alg="direct", kms_script=ks, encrypt_script=es)
            else:
                ep, tag, info, dg, n = _encryptor().encrypt_and_generate(pt, case["key"], 9, kd, SuitDigestAlgorithms("sha-256"), SuitKWAlgorithms("direct"), ks)
                open(os.path.join(od, "plain_text_digest.bin"), "wb").write(dg)
                open(os.path.join(od, "plain_text_size.txt"), "w").write(str(n))
                open(os.path.join(od, "suit_encryption_info.bin"), "wb").write(info)
                open(os.path.join(od, "encrypted_content.bin"), "wb").write(tag + ep)
        except Exception as e:
            agg.viol(f"C06:key-name/encrypt-failed/{type(e).__name__}", f"{label}: {type(e).__name__}: {str(e)[-300:]}")
            return
        r = check_artifacts(od, vkeys.aes_key(vkeys.identity(case["key"])), pt, 9, "sha-256")
        problems = r[0] if isinstance(r, tuple) else r
    if problems:
        agg.viol(f"C06:key-name/{problems[0][0]}", f"{label}: " + "; ".join(p[1] for p in problems[:2]))
    else:
        agg.ok(h8("c06k", case), f"ok:key-name:{case['via']}", sample=case if case["via"] == "cli" and case["L"] else None)

# -- key files whose 32 bytes happen to look like text ----------------------------------------------------------
KEY_BYTES = {
    "hex-ascii": b"0123456789abcdef0123456789ABCDEF",
    "digits": b"12345678901234567890123456789012",
    "base64-ascii": b"QUJDREVGR0hJSktMTU5PUFFSU1RVVg==",
    "ends-with-newline": bytes(range(101, 132)) + b"\n",
    "starts-and-ends-with-blanks": b" \t" + bytes(range(140, 168)) + b"\r\n",
    "utf8-bom": b"\xef\xbb\xbf" + bytes(range(200, 229)),
    "zeros": bytes(32),
    "armour-like": b"-----BEGIN AES256 KEY-----\n=\n\n\n\n",
}


def keybytes_cases(tier):
    return [{"kb": k, "via": v, "L": L} for k in KEY_BYTES for v in ("object", "main") for L in (0, 33)]


def run_keybytes(case, agg):
    """the named key file is 32 arbitrary bytes: also when they are all hex digits, decimal digits, base64 characters,
    end in a line break, begin with a byte-order mark or look like armour - the key is those bytes, as they are"""
    from suit_generator import cmd_encrypt
    from suit_generator.suit_encrypt_script_base import SuitDigestAlgorithms, SuitKWAlgorithms
    es, ks = escripts()
    kb = KEY_BYTES[case["kb"]]
    assert len(kb) == 32, case
    pt = plaintext(case["L"], 6)
    label = f"encrypt-and-generate with a key file whose bytes are {case['kb']} via {case['via']} ({case['L']} bytes)"
    with fresh_dir("c06b") as d:
        od, kd = os.path.join(d, "out"), os.path.join(d, "keys")
        os.makedirs(od)
        os.makedirs(kd)
        open(os.path.join(kd, "fwkey.bin"), "wb").write(kb)
        fw = os.path.join(d, "fw.bin")
        open(fw, "wb").write(pt)
        try:
            if case["via"] == "main":
                cmd_encrypt.main(encrypt_subcommand="encrypt-and-generate", firmware=fw, key_name="fwkey", key_id=9, context=kd,
                                 output_dir=od, hash_alg="sha-256", kw_alg="direct", kms_script=ks, encrypt_script=es)
            else:
                ep, tag, info, dg, n = _encryptor().encrypt_and_generate(pt, "fwkey", 9, kd, SuitDigestAlgorithms("sha-256"), SuitKWAlgorithms("direct"), ks)
                open(os.path.join(od, "plain_text_digest.bin"), "wb").write(dg)
                open(os.path.join(od, "plain_text_size.txt"), "w").write(str(n))
                open(os.path.join(od, "suit_encryption_info.bin"), "wb").write(info)
                open(os.path.join(od, "encrypted_content.bin"), "wb").write(tag + ep)
        except Exception as e:
            agg.viol(f"C06:key-bytes/encrypt-failed/{type(e).__name__}", f"{label}: {type(e).__name__}: {str(e)[-300:]}")
            return
        r = check_artifacts(od, kb, pt, 9, "sha-256")
        problems = r[0] if isinstance(r, tuple) else r
    if problems:
        agg.viol(f"C06:key-bytes/{problems[0][0]}", f"{label}: " + "; ".join(p[1] for p in problems[:2]))
    else:
        agg.ok(h8("c06b", case), f"ok:key-bytes:{case['via']}", sample=case if case["via"] == "main" and case["L"] and case["kb"] == "hex-ascii" else None)

# -- one imported KMS module, one key NAME, several key stores (library use of the basic KMS) -------------------------
KOBJ_ALPHABET = [(store, obj) for store in ("main", "alt", "rotating") for obj in ("reuse", "new")]


def kmsobj_cases(tier):
    return [{"steps": list(p)} for n in (1, 2, 3) for p in itertools.product(range(len(KOBJ_ALPHABET)), repeat=n)]


def run_kmsobj(case, agg):
    """the basic KMS imported ONCE as a module; every step encrypts with the key NAME 'aes' - in the main key store, in a
    second store that holds another key under that name, or in a store whose key file is replaced before the step - on
    the same (re-initialised) or a new KMS object, context given as a path or as JSON: the output of every step decrypts
    with the key that is in <store>/aes.bin at that moment"""
    import json as _json
    from .c04 import _kms
    aad = refcose.enc_structure(bytes.fromhex("a10103"))
    steps = [KOBJ_ALPHABET[i] for i in case["steps"]]
    with fresh_dir("c06o") as d:
        rot = os.path.join(d, "rotating-store")
        os.makedirs(rot)
        kms = None
        for si, (store, obj) in enumerate(steps):
            if store == "rotating":
                key = vkeys._seed(f"rotating-{si}", 32)
                open(os.path.join(rot, "aes.bin"), "wb").write(key)
                kd = rot
            elif store == "alt":
                kd, key = vkeys.key_dir_alt(), vkeys.aes_key("aes_alt")
            else:
                kd, key = vkeys.key_dir(), vkeys.aes_key("aes")
            ctx = kd if si % 2 == 0 else _json.dumps({"keys_directory": kd})
            label = f"KMS object history {steps[:si + 1]} (key name 'aes' everywhere)"
            pt = plaintext(20 + si, si)
            try:
                if kms is None or obj == "new":
                    kms = _kms().suit_kms_factory()
                kms.init_kms(ctx)
                nonce, tag, ct = kms.encrypt(plaintext=pt, key_name="aes", context=ctx, aad=aad)
            except Exception as e:
                agg.viol(f"C06:kms-object/failed/{type(e).__name__}", f"{label}: {type(e).__name__}: {str(e)[:200]}")
                return
            if refcose.aes_gcm_decrypt(key, nonce, ct, tag, aad) != pt:
                agg.viol("C06:kms-object/decrypt", f"{label}: the output of step {si + 1} does not decrypt with the key that is in {store}/aes.bin")
                return
    agg.ok(h8("c06o", case), f"ok:kms-object:steps={len(steps)}", sample=case if case["steps"] == [0, 2, 4] else None)


INPLACE = [("enc", "encrypted_content.bin"), ("enc", "plain_text_digest.bin"), ("enc", "plain_text_size.txt"), ("enc", "suit_encryption_info.bin"),
           ("gi-blob", "encrypted_content.bin"), ("gi-blob", "suit_encryption_info.bin"), ("gi-key", "suit_encryption_info.bin"),
           ("gi-key", "encrypted_content.bin"), ("gi-both", None)]


def inplace_cases(tier):
    return [{"sub": s, "at": a, "via": v, "L": L} for (s, a) in INPLACE for v in ("main", "cli") for L in (40, 3000)]


def run_inplace(case, agg):
    """an input file that lives at one of the output paths (re-encrypting an artifact of an earlier run in its own
    directory, or the blob / wrapped key stored under the artifact's name): the artifacts describe the supplied input"""
    from suit_generator import cmd_encrypt
    es, ks = escripts()
    kd = vkeys.key_dir()
    sub, at, L = case["sub"], case["at"], case["L"]
    label = f"{sub} with its input stored as <output-dir>/{at or 'both artifact names'} ({L} bytes) via {case['via']}"
    with fresh_dir("c06i") as d:
        od = os.path.join(d, "out")
        os.makedirs(od)
        try:
            if sub == "enc":
                pt = plaintext(L, 6)
                fw = os.path.join(od, at)
                open(fw, "wb").write(pt)
                if case["via"] == "cli":
                    rc, so, se = impl.cli(["encrypt", "encrypt-and-generate", "--firmware", fw, "--key-name", "aes", "--key-id", "9", "--context", kd,
                                           "--output-dir", od, "--kms-script", ks, "--encrypt-script", es], d)
                    if rc != 0:
                        raise RuntimeError(f"cli rc={rc}: {se[-300:]}")
                else:
                    cmd_encrypt.main(encrypt_subcommand="encrypt-and-generate", firmware=fw, key_name="aes", key_id=9, context=kd,
                                     output_dir=od, hash_alg="sha-256", kw_alg="direct", kms_script=ks, encrypt_script=es)
                r = check_artifacts(od, vkeys.aes_key("aes"), pt, 9, "sha-256")
                problems = r[0] if isinstance(r, tuple) else r
            else:
                blob = bytes((i * 13 + 5) % 256 for i in range(28 + L))
                cek = b"W" * 40
                fb, fk = os.path.join(d, "b.bin"), os.path.join(d, "k.bin")
                if sub == "gi-blob":
                    fb = os.path.join(od, at)
                elif sub == "gi-key":
                    fk = os.path.join(od, at)
                else:
                    fb, fk = os.path.join(od, "encrypted_content.bin"), os.path.join(od, "suit_encryption_info.bin")
                open(fb, "wb").write(blob)
                open(fk, "wb").write(cek)
                if case["via"] == "cli":
                    rc, so, se = impl.cli(["encrypt", "generate-info", "--encrypted-firmware", fb, "--encrypted-key", fk, "--key-id", "9",
                                           "--output-dir", od, "--encrypt-script", es], d)
                    if rc != 0:
                        raise RuntimeError(f"cli rc={rc}: {se[-300:]}")
                else:
                    cmd_encrypt.main(encrypt_subcommand="generate-info", encrypted_firmware=fb, encrypted_key=fk, key_id=9, kw_alg="direct",
                                     output_dir=od, encrypt_script=es)
                r = check_artifacts(od, None, None, 9, None, kw="direct", cek=cek)
                problems, info = r if isinstance(r, tuple) else (r, None)
                if not problems:
                    pi, _ = parse_info(info)
                    if pi["iv"] != blob[:12]:
                        problems.append(("generate-info-iv", f"published IV {pi['iv']!r} is not the first 12 bytes of the supplied blob"))
                    elif open(os.path.join(od, "encrypted_content.bin"), "rb").read() != blob[12:]:
                        problems.append(("generate-info-content", "encrypted_content.bin is not tag||ciphertext of the supplied blob"))
        except Exception as e:
            agg.viol(f"C06:input-at-output-path/failed/{type(e).__name__}", f"{label}: {type(e).__name__}: {str(e)[-300:]}")
            return
    if problems:
        agg.viol(f"C06:input-at-output-path/{problems[0][0]}", f"{label}: " + "; ".join(p[1] for p in problems[:2]))
    else:
        agg.ok(h8("c06i", case), f"ok:in-place:{sub}", sample=case if case["via"] == "cli" and L == 40 and sub == "gi-both" else None)


# -- several KMS scripts in one process; scripts also named by the environment ----------------------------------
ALT_KMS = '''"""a second KMS: the stock file-based one with its own key store (same key names, other keys)"""
import importlib.util
_spec = importlib.util.spec_from_file_location("svmc_stock_kms_for_encrypt", %r)
_m = importlib.util.module_from_spec(_spec)
_spec.loader.exec_module(_m)


class SuitKMS(_m.SuitKMS):
    def init_kms(self, context):
        super().init_kms(%r)


def suit_kms_factory():
    return SuitKMS()
'''
DECOY = '''raise RuntimeError("a script named by the ENVIRONMENT was loaded although the command line names one")
'''
KMS_RUNS = [(k, via) for k in ("stock", "alt") for via in ("main", "object", "object-reused")]


def kmsseq_cases(tier):
    return [{"runs": list(p), "env": e} for n in (1, 2, 3) for p in itertools.product(range(len(KMS_RUNS)), repeat=n)
            for e in (("none",) if n == 3 else ("none", "NCS_SUIT_KMS_SCRIPT", "ZEPHYR_BASE"))]


def run_kmsseq(case, agg):
    """a history of encryptions in ONE process with two different KMS scripts that share their file name (basic_kms.py in two
    directories, each with its own key store), optionally with NCS_SUIT_*_SCRIPT / ZEPHYR_BASE pointing at other
    scripts: every run is encrypted by the KMS its --kms-script names (the artifacts decrypt with THAT store's key)"""
    from suit_generator import cmd_encrypt
    from suit_generator.suit_encrypt_script_base import SuitDigestAlgorithms, SuitKWAlgorithms
    es, ks = escripts()
    label = f"encryptions in one process {[KMS_RUNS[i] for i in case['runs']]}, environment {case['env']}"
    saved = {k: os.environ.get(k) for k in ("NCS_SUIT_KMS_SCRIPT", "NCS_SUIT_ENCRYPT_SCRIPT", "NCS_SUIT_SIGN_SCRIPT", "ZEPHYR_BASE")}
    with fresh_dir("c06s") as d:
        os.makedirs(os.path.join(d, "alt"))
        alt = os.path.join(d, "alt", os.path.basename(ks))
        open(alt, "w").write(ALT_KMS % (ks, vkeys.key_dir_alt()))
        nd = os.path.join(d, "sdk", "modules", "lib", "suit-generator", "ncs")
        os.makedirs(nd)
        os.makedirs(os.path.join(d, "sdk", "zephyr"))
        for f in ("basic_kms.py", "encrypt_script.py", "sign_script.py"):
            open(os.path.join(nd, f), "w").write(DECOY)
        try:
            if case["env"] == "NCS_SUIT_KMS_SCRIPT":
                os.environ["NCS_SUIT_KMS_SCRIPT"] = os.path.join(nd, "basic_kms.py")
                os.environ["NCS_SUIT_ENCRYPT_SCRIPT"] = os.path.join(nd, "encrypt_script.py")
            elif case["env"] == "ZEPHYR_BASE":
                os.environ["ZEPHYR_BASE"] = os.path.join(d, "sdk", "zephyr")
            shared = _encryptor()
            for n, ri in enumerate(case["runs"]):
                which, via = KMS_RUNS[ri]
                script, key = (ks, vkeys.aes_key("aes")) if which == "stock" else (alt, vkeys.aes_key("aes_alt"))
                pt = plaintext(40 + n, n)
                od = os.path.join(d, f"o{n}")
                os.makedirs(od)
                try:
                    if via == "main":
                        fw = os.path.join(d, f"fw{n}.bin")
                        open(fw, "wb").write(pt)
                        cmd_encrypt.main(encrypt_subcommand="encrypt-and-generate", firmware=fw, key_name="aes", key_id=7, context=vkeys.key_dir(),
                                         output_dir=od, hash_alg="sha-256", kw_alg="direct", kms_script=script, encrypt_script=es)
                    else:
                        e = shared if via == "object-reused" else _encryptor()
                        ep, tag, info, dg, sz = e.encrypt_and_generate(pt, "aes", 7, vkeys.key_dir(), SuitDigestAlgorithms("sha-256"), SuitKWAlgorithms("direct"), script)
                        open(os.path.join(od, "plain_text_digest.bin"), "wb").write(dg)
                        open(os.path.join(od, "plain_text_size.txt"), "w").write(str(sz))
                        open(os.path.join(od, "suit_encryption_info.bin"), "wb").write(info)
                        open(os.path.join(od, "encrypted_content.bin"), "wb").write(tag + ep)
                except Exception as ex:
                    agg.viol(f"C06:kms-scripts/failed/{type(ex).__name__}", f"{label}: run {n + 1}: {type(ex).__name__}: {str(ex)[:200]}")
                    return
                r = check_artifacts(od, key, pt, 7, "sha-256")
                problems = r[0] if isinstance(r, tuple) else r
                if problems:
                    agg.viol(f"C06:kms-scripts/{problems[0][0]}", f"{label}: run {n + 1} (KMS script {which}): " + "; ".join(p[1] for p in problems[:2]))
                    return
        finally:
            for k, v in saved.items():
                if v is None:
                    os.environ.pop(k, None)
                else:
                    os.environ[k] = v
    agg.ok(h8("c06s", case), f"ok:runs={len(case['runs'])}:{case['env']}", sample=case if case["runs"] == [0, 4] and case["env"] == "none" else None)


RULE += ". Further stages: " + "key files whose 32 bytes look like text (hex, digits, base64, line break, BOM, armour); create from the directory's artifacts after every encryption of a two-run history"


def plan(tier):
    return [
        CaseStage("kms-scripts-in-one-process", lambda: kmsseq_cases(tier), run_kmsseq,
                  rule="all sequences of <= 3 encryptions {stock, second KMS script of the same file name} x {main, new Encryptor, reused Encryptor}; "
                       "sequences of <= 2 also with NCS_SUIT_KMS_SCRIPT / ZEPHYR_BASE naming other scripts"),
        CaseStage("key-names", lambda: keyname_cases(tier), run_keyname, chunk=1, rule="AES key names with dots (sibling with the truncated name present / absent) x library / main / CLI"),
        CaseStage("kms-object-histories", lambda: kmsobj_cases(tier), run_kmsobj,
                  rule="all sequences of <= 3 steps over {main store, second store with another key under the same name, store whose key file is replaced} x {same KMS object, new object} on ONE imported KMS module"),
        CaseStage("key-file-contents", lambda: keybytes_cases(tier), run_keybytes, rule="8 key files whose 32 bytes look like text (hex, digits, base64, line break at the end, BOM, armour) x library / main x 2 lengths"),
        CaseStage("input-at-output-path", lambda: inplace_cases(tier), run_inplace, chunk=1,
                  rule="every input of both sub-commands stored under every artifact name of the output directory x main / CLI"),
        CaseStage("encrypt-and-generate", lambda: enc_cases(tier), run_enc, disjoint=True, rule="length x key id x digest alg x entry path"),
        CaseStage("generate-info", lambda: gi_cases(tier), run_gi, disjoint=True, rule="blob length x key id x kw alg x entry path"),
        CaseStage("cli-defaults", lambda: cli_default_cases(tier), run_cli_defaults, rule="real CLI with optional arguments omitted, key id syntax, context as path / JSON"),
        CaseStage("encryptor-object-reused", lambda: reuse_cases(tier), run_reuse, rule="all sequences of 2 and 3 operations {encrypt direct, generate direct, generate aes-kw-256} on ONE Encryptor object"),
        CaseStage("output-directory-reused", lambda: rewrite_cases(tier), run_rewrite, rule="ordered pairs of runs (sub-command x length) into one directory"),
    ]
