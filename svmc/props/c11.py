"""C11 - payload extraction conserves payloads and leaves authenticated content intact."""
from __future__ import annotations

import copy
import itertools
import os
import re

from .. import gen, impl, refcbor
from ..core import CaseStage, BfsStage, fresh_dir, h8, seed_slice, tuplify
from .c10 import walk_cache

LEVEL = "model_checking"
RULE = ("cache_create from_envelope: every envelope hierarchy of depth<=3 (4 payload sets per node, 0-2 dependencies, names "
        "repeated across levels, contents distinct per position) x (omit, dependency) pattern pairs (complete 5x5 basic grid + prefix/alternation patterns), compared with a "
        "reference model of the selection (multiset of (path, name, bytes)): each payload is found exactly once, in the "
        "output tree at the same path or in the cache under its name, byte-identical; manifest and wrapper spans at "
        "every level byte-identical; refusals (duplicate URI, dependency pattern on a non-envelope) leave no output. "
        "payload_extract: breadth-first over extraction histories (name present/absent x replace x output file) to "
        "depth 2 from envelopes with 0-3 payloads, states deduplicated by envelope hash. distinct = distinct (tree, "
        "patterns) / histories; non-trivial = outputs were produced and compared or a refusal was predicted by the model")
ASSUMPTIONS = ["svmc/refcbor.py; cache files read with C10's walker", "pattern semantics: re.fullmatch on the member name"]
BOUNDS = {"quick": "555 trees (second dependency fixed to a leaf) x 25 pattern pairs; extract histories depth 2",
          "thorough": "same trees x 25 pattern pairs x eb in {1,16}; extract histories depth 3"}

PAYSETS = [[], ["#a"], ["#a", "#b"], ["cache://x"], ["#e", "#a"], ["#ab", "#a"], ["#A", "#a"]]      # "#e" is a zero-length payload
PATTERNS = [None, "nomatch", ".*", "#a.*", "#dep.*", "#a", "#a|#b", "#b|#a"]    # "#a" / "#a|#b" must not select "#ab" (fullmatch of the whole alternation)


def trees(depth):
    """-> list of tree = (payload names tuple, deps tuple of (name, subtree))"""
    if depth == 1:
        return [(tuple(p), ()) for p in PAYSETS]
    sub = trees(depth - 1)
    leaf = (("#a",), ())
    out = []
    for p in PAYSETS:
        out.append((tuple(p), ()))
        for s in sub:
            out.append((tuple(p), (("#dep1", s),)))
            out.append((tuple(p), (("#dep1", s), ("#dep2", leaf))))
    return out


_TREES = None


def all_trees():
    global _TREES
    if _TREES is None:
        _TREES = trees(3)
    return _TREES


def content(path, name):
    if name == "#e":
        return b""
    seedv = sum(map(ord, path + "|" + name))
    return bytes((seedv * 7 + i * 3 + 1) % 256 for i in range(5 + seedv % 40))


def build_desc(tree, path="", seq=1):
    pay, deps = tree
    env = {}
    ip = {n: content(path, n).hex() for n in pay}
    if ip:
        env["suit-integrated-payloads"] = ip
    idp = {}
    for dn, sub in deps:
        idp[dn] = build_desc(sub, path + "/" + dn, seq + 1)
    if idp:
        env["suit-integrated-dependencies"] = idp
    return gen.minimal(man={"suit-manifest-sequence-number": seq, "suit-reference-uri": "tree" + path}, env=env)


def model(tree, omit, dep, path=""):
    """reference selection -> (output tree: dict name -> bytes|subtree-dict, cache pairs) or raises Refuse."""
    pay, deps = tree
    names = list(pay) + [d for d, _ in deps]      # order in the envelope: payloads member first, then dependencies
    sub = dict(deps)
    as_dep = [n for n in names if dep is not None and re.fullmatch(dep, n)]
    rest = [n for n in names if n not in as_dep]
    extract = [n for n in rest if omit is None or not re.fullmatch(omit, n)]
    cache = []
    out = {}
    for n in names:
        if n in extract:
            cache.append((path, n))
        elif n not in as_dep:
            out[n] = ("keep", path, n)
    for n in as_dep:
        if n not in sub:
            raise Refuse(f"dependency pattern matches {n!r} at {path or '/'} which is not an envelope")
        o2, c2 = model(sub[n], omit, dep, path + "/" + n)
        out[n] = ("tree", o2)
        cache += c2
    return out, cache


class Refuse(Exception):
    pass


def leaves(tree, path=""):
    """all payload leaves (path, name) and dependency envelopes (which are payloads too when not descended into)."""
    pay, deps = tree
    out = [(path, n) for n in pay]
    for dn, sub in deps:
        out += leaves(sub, path + "/" + dn)
    return out


def cache_cases(tier):
    ts = all_trees()
    out = []
    i = 0
    for ti in range(len(ts)):
        for o in range(len(PATTERNS)):
            for d in range(len(PATTERNS)):
                if (o >= 5 and d not in (0, 4)) or (d >= 5 and o != 0):
                    continue        # the special patterns are paired with {none, #dep.*} / none only; the basic 5x5 grid is complete
                for eb in ((16,) if tier == "quick" else (16, 1)):
                    out.append({"t": ti, "omit": o, "dep": d, "eb": eb, "i": i})
                    i += 1
    return out


def verify_tree(data, expected, orig_bytes, path, problems):
    """compare an output envelope with the expected output tree; orig_bytes = the input envelope at this path."""
    try:
        env, raw = impl.envelope_members(data)
        oenv, oraw = impl.envelope_members(orig_bytes)
    except refcbor.CborError as e:
        problems.append(("output-undecodable", f"{path or '/'}: {e}"))
        return
    for k in (2, 3):
        if raw.get(k) != oraw.get(k):
            problems.append(("authenticated-content-changed", f"{path or '/'}: member {k} is not byte-identical"))
    for k in oraw:
        if not isinstance(k, str) and k not in raw:
            problems.append(("member-lost", f"{path or '/'}: member {k} lost"))
    got = [k for k in raw if isinstance(k, str)]
    if sorted(got) != sorted(expected):
        problems.append(("payload-set", f"{path or '/'}: string-keyed members {got}, expected {list(expected)}"))
        return
    for n, e in expected.items():
        if e[0] == "keep":
            if env.get(n).value != oenv.get(n).value:
                problems.append(("payload-bytes", f"{path or '/'}: payload {n!r} kept in the envelope changed"))
        else:
            verify_tree(env.get(n).value, e[1], oenv.get(n).value, path + "/" + n, problems)


def run_cache(case, agg):
    from suit_generator import cmd_cache_create
    tree = all_trees()[case["t"]]
    omit, dep = PATTERNS[case["omit"]], PATTERNS[case["dep"]]
    key = h8("c11", {k: case[k] for k in ("t", "omit", "dep", "eb")})
    label = f"tree#{case['t']} {tree} omit={omit!r} dependency={dep!r}"
    try:
        b = impl.tool_create(build_desc(tree))
    except Exception as e:
        raise RuntimeError(f"harness: cannot create tree {tree}: {e}")
    try:
        exp_tree, exp_cache = model(tree, omit, dep)
        uris = [n for _, n in exp_cache]
        refuse = "duplicate URI extracted" if len(set(uris)) != len(uris) else None
    except Refuse as r:
        refuse = str(r)
    with fresh_dir("c11") as d:
        inp, oute, outc = (os.path.join(d, impl.odd_name(st, ext, str(case)[:200])) for st, ext in (("in", "suit"), ("out", "suit"), ("cache", "bin")))
        open(inp, "wb").write(b)
        inplace = case["i"] % 7 == 3
        if inplace:
            oute = inp                              # --output-envelope names the input file
        elif not refuse:
            impl.prefill(oute)
            impl.prefill(outc)
        try:
            if seed_slice(case["i"], 211):
                args = ["cache_create", "from_envelope", "--input-envelope", inp, "--output-envelope", oute, "--output-file", outc,
                        "--eb-size", str(case["eb"])]
                if omit is not None:
                    args += ["--omit-payload-regex", omit]
                if dep is not None:
                    args += ["--dependency-regex", dep]
                rc, so, se = impl.cli(args, d)
                if rc != 0:
                    raise RuntimeError(f"cli rc={rc} {se[-200:]}")
                via = "cli"
            else:
                cmd_cache_create.main(cache_create_subcommand="from_envelope", input_envelope=inp, output_envelope=oute,
                                      output_file=outc, eb_size=case["eb"], omit_payload_regex=omit, dependency_regex=dep)
                via = "main"
        except Exception as e:
            left = [x for x in (oute, outc) if os.path.exists(x) and x != inp]
            if refuse:
                if left:
                    agg.viol("C11:cache/refusal-left-output", f"{label}: refused ({refuse}) but wrote {[os.path.basename(x) for x in left]}")
                else:
                    agg.rej(key, "refused:" + refuse.split(" ")[0], nontrivial=True)
            else:
                agg.viol(f"C11:cache/failed/{type(e).__name__}", f"{label}: {type(e).__name__}: {str(e)[:300]}")
            return
        if refuse:
            agg.viol("C11:cache/should-refuse", f"{label}: {refuse}, but the command completed")
            return
        oe = open(oute, "rb").read()
        cache = open(outc, "rb").read()
    problems = []
    verify_tree(oe, exp_tree, b, "", problems)
    if cache == b"\xff":
        pairs = []      # a cache built from zero slots is the lone byte 0xFF (read as empty)
    else:
        pr, cprob = walk_cache(cache, case["eb"])
        pairs = [(u, p) for u, p, _ in pr]
        for c in cprob:
            problems.append(("cache-malformed", c))
    want = [(n, content(p, n)) for p, n in exp_cache if (p, n) in set(leaves(tree))]
    # dependency envelopes extracted as plain payloads: expected bytes are the embedded child as it was in the input
    want = []
    for p, n in exp_cache:
        want.append((n, _member_at(b, p, n)))
    if pairs != want:
        problems.append(("cache-content", f"cache holds {[(u, len(x)) for u, x in pairs]}, expected {[(u, len(x)) for u, x in want]}"))
    if problems:
        agg.viol(f"C11:cache/{problems[0][0]}", f"{label}: " + "; ".join(p[1] for p in problems[:3]))
    else:
        agg.ok(key, f"ok:{via}:extracted={len(want)}", sample={"tree": str(tree), "omit": omit, "dependency": dep, "extracted": [u for u, _ in want]}
               if len(want) == 3 else None)


def _member_at(envelope, path, name):
    cur = envelope
    for seg in [s for s in path.split("/") if s]:
        env, raw = impl.envelope_members(cur)
        cur = env.get(seg).value
    env, raw = impl.envelope_members(cur)
    return env.get(name).value


# -- payload_extract histories -----------------------------------------------------------------------

EXTRACT_SEEDS = {"none": [], "one": ["#a"], "empty": ["#e"], "three": ["#a", "#e", "#b", "cache://x"]}
EXTRACT_OPS = ([(n, rep, outf) for n in ("#a", "#e", "#b", "#zzz") for rep in (False, True) for outf in (False, True)]
               + [("#a", "same-file", True), ("#b", "same-file", True)])      # in-place swap: replacement read from the file the payload is written to


def extract_init():
    return [((s,), ("seed", s)) for s in EXTRACT_SEEDS]


def extract_step(hist, agg, expand):
    from suit_generator import cmd_payload_extract
    hist = tuplify(hist)
    names = EXTRACT_SEEDS[hist[0]]
    b = impl.tool_create(gen.minimal(env={"suit-integrated-payloads": {n: content("", n).hex() for n in names}} if names else {}))
    state = {n: content("", n) for n in names}       # reference model: name -> bytes
    key = h8("c11x", hist)
    with fresh_dir("c11x") as d:
        cur = b
        for step, opi in enumerate(hist[1:]):
            name, rep, outf = EXTRACT_OPS[opi]
            inp, oute, outp, repf = (os.path.join(d, f"{step}_{x}") for x in ("in.suit", "out.suit", "payload.bin", "rep.bin"))
            if key % 2:
                # the envelope is stripped payload by payload IN PLACE: every step reads and writes the one file
                inp = oute = os.path.join(d, "work.suit")
                if step == 0:
                    open(inp, "wb").write(cur)
            else:
                open(inp, "wb").write(cur)
            repl = b"replacement-" + bytes([step, 0, 255])
            if rep == "same-file":
                # both options name the same file (spelled differently): it holds the replacement and receives the old payload
                os.makedirs(os.path.join(d, f"{step}_dir"), exist_ok=True)
                repf = os.path.join(d, f"{step}_dir", "swap.bin")
                outp = os.path.join(d, f"{step}_dir", ".", "swap.bin")
                open(repf, "wb").write(repl)
            elif rep:
                open(repf, "wb").write(repl)
            if outf and rep != "same-file":
                open(outp, "wb").write(b"STALE CONTENT OF AN EARLIER RUN")      # the output path may already exist
            label = f"history {hist[0]} -> {[EXTRACT_OPS[i] for i in hist[1:step + 2]]}" + (" (in place, one envelope file)" if key % 2 else "")
            present = name in state
            try:
                cmd_payload_extract.main(input_envelope=inp, output_envelope=oute, payload_name=name,
                                         output_payload_file=outp if outf else None, payload_replace_path=repf if rep else None)
            except Exception as e:
                if present:
                    agg.viol(f"C11:extract/failed/{type(e).__name__}", f"{label}: {type(e).__name__}: {str(e)[:200]}")
                    return []
                # extracting a name that is not there: the property is silent on the outcome
                agg.rej(key, f"absent-name:{type(e).__name__}", nontrivial=False)
                return []
            new = open(oute, "rb").read()
            exp = dict(state)
            if present:
                old = exp.pop(name)
            if rep:
                exp[name] = repl
            problems = []
            try:
                env, raw = impl.envelope_members(new)
                oenv, oraw = impl.envelope_members(cur)
                for k in (2, 3):
                    if raw.get(k) != oraw.get(k):
                        problems.append(("authenticated-content-changed", f"member {k} is not byte-identical"))
                got = {k: env.get(k).value for k in raw if isinstance(k, str)}
                if got != exp:
                    problems.append(("payload-set", f"members {sorted((k, len(v)) for k, v in got.items())}, expected {sorted((k, len(v)) for k, v in exp.items())}"))
                if present and outf:
                    if not os.path.exists(outp) or open(outp, "rb").read() != old:
                        problems.append(("payload-file", "extracted payload file does not hold the payload's bytes"))
            except refcbor.CborError as e:
                problems.append(("output-undecodable", str(e)))
            if problems:
                agg.viol(f"C11:extract/{problems[0][0]}", f"{label}: " + "; ".join(p[1] for p in problems))
                return []
            cur, state = new, exp
        agg.ok(key, f"ok:depth={len(hist) - 1}", sample={"seed": hist[0], "ops": [EXTRACT_OPS[i] for i in hist[1:]]} if len(hist) == 3 else None)
    if not expand:
        return []
    return [(str(EXTRACT_OPS[i]), hist + (i,), h8("xs", hist[0], sorted(state.items()), i, len(hist))) for i in range(len(EXTRACT_OPS))]


def plan(tier):
    return [
        CaseStage("cache-from-envelope", lambda: cache_cases(tier), run_cache, disjoint=True, rule="trees x (omit, dependency) patterns"),
        BfsStage("extract-histories", extract_init, extract_step, max_depth=2 if tier == "quick" else 3,
                 rule="payload_extract histories (name x replace x output file)"),
    ]
