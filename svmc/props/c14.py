"""C14 - every encryption uses a fresh IV (model checking over encryption histories)."""
from __future__ import annotations

import glob
import os
import time

from .. import core, impl, keys as vkeys, refcose
from ..core import CaseStage, BfsStage, fresh_dir, h8, tuplify
from .c06 import escripts, parse_info, plaintext

LEVEL = "model_checking"
RULE = ("breadth-first over encryption histories: per step plaintext in {A, B, empty} x encryptor object {reused, new} x "
        "entry {Encryptor.encrypt_and_generate, cmd_encrypt.main with files} x key {k1, k2} (+ the CLI main writing into ONE already populated output directory); every history up to the "
        "depth bound is executed with OWNED entropy/clock/environment (os.urandom replaced by a labelled counter stream - plus, as deviation 1 of the entropy source, every single collision of two draws of <= 5 bytes, which real entropy produces within 10^5 steps -, the variables of a reproducible build (SOURCE_DATE_EPOCH, ...) unset and, to depth 2/3, set, "
        "time frozen, the global `random` generator re-seeded before every step: any IV that is constant, cached, reset per object/process or derived from plaintext/clock "
        "collides deterministically) and with real entropy; histories are not merged (hidden interpreter state). "
        "Invariant in every state: IVs published under the same key are pairwise distinct and every ciphertext "
        "decrypts (independent AES-GCM) with ITS published IV. Plus N fresh interpreters (CLI) encrypting the same "
        "firmware, and long single-process histories of identical plaintexts; thorough unites the IV sets of 16 "
        "interpreters (10^5 steps).")
ASSUMPTIONS = ["the OS entropy source returns independent values (distinctness of genuinely random 96-bit IVs is a probability "
               "statement, collision chance 2^-96 per pair; model checking decides the program's part, not the probability)",
               "cryptography AESGCM for the independent decryption"]
BOUNDS = {"quick": "histories depth 3 (26^3) with owned entropy, depth 2 with real entropy; 8 fresh interpreters; 1000-step history",
          "thorough": "histories depth 4 (26^4) with owned entropy, depth 3 with real entropy; 64 fresh interpreters; 2*10^4-step history; 10^5 steps over 16 interpreters"}

PT = {"A": plaintext(100, 1), "B": plaintext(33, 2), "E": b""}
ALPHABET = [(p, o, e, k) for p in ("A", "B", "E") for o in ("reuse", "new") for e in ("lib", "main") for k in ("aes", "aes_b")] + \
           [(p, "new", "main-same-dir", "aes") for p in ("A", "B")]        # CLI main writing into one, already populated, output directory


OWNED_ACTIVE = [False]


SHORT_DRAW = 5      # bytes; see Owned
REPRO_ENV = {"SOURCE_DATE_EPOCH": "1700000000", "ZERO_AR_DATE": "1", "PYTHONHASHSEED": "0"}


class Owned:
    """Owned entropy, clock and process environment for one history execution.

    os.urandom answers with a labelled counter stream: all draws are distinct, except for ONE chosen short draw
    (collide=j: the j-th draw of at most SHORT_DRAW bytes repeats the previous draw of the same size).  Two draws of
    k <= 5 bytes coinciding is something the real entropy source does within the property's own bound (10^5 steps:
    birthday probability >= 10^-3 for 40 bits, ~0.7 for 32 bits); two 12-byte draws coinciding is not (2^-96 per pair)
    and is never produced.  A single collision cannot make two IVs equal that each rest on >= 96 bits of entropy.
    repro=True additionally sets the variables a reproducible build exports (SOURCE_DATE_EPOCH, ...)."""

    def __init__(self, collide=None, repro=False):
        self.collide, self.repro = collide, repro

    def __enter__(self):
        self.n = 0
        self.short = 0
        self.last_short = {}
        OWNED_ACTIVE[0] = True
        self._ur, self._t, self._tn = os.urandom, time.time, time.time_ns

        def urandom(k):
            self.n += 1
            val = (self.n).to_bytes(max(k, 8), "big")[-k:] if k else b""
            if 0 < k <= SHORT_DRAW:
                self.short += 1
                if self.collide is not None and self.short == self.collide + 1 and k in self.last_short:
                    val = self.last_short[k]
                self.last_short[k] = val
            return val
        os.urandom = urandom
        time.time = lambda: 1_700_000_000.0
        time.time_ns = lambda: 1_700_000_000_000_000_000
        self._env = {k: os.environ.get(k) for k in REPRO_ENV}
        for k, v in REPRO_ENV.items():
            if self.repro:
                os.environ[k] = v
            else:
                os.environ.pop(k, None)
        return self

    def __exit__(self, *a):
        OWNED_ACTIVE[0] = False
        os.urandom, time.time, time.time_ns = self._ur, self._t, self._tn
        for k, v in self._env.items():
            if v is None:
                os.environ.pop(k, None)
            else:
                os.environ[k] = v


class _Real:
    def __enter__(self):
        return self

    def __exit__(self, *a):
        pass


def one_step(enc_obj, pt, key_name, entry, d, step):
    """-> (iv, content(tag||ct), info bytes)"""
    from suit_generator import cmd_encrypt
    from suit_generator.suit_encrypt_script_base import SuitDigestAlgorithms, SuitKWAlgorithms
    es, ks = escripts()
    kd = vkeys.key_dir()
    if OWNED_ACTIVE[0]:
        import random
        random.seed(20240926)        # a host application / test framework that seeds the global (non-cryptographic) generator
    if entry == "lib":
        ep, tag, info, dg, n = enc_obj.encrypt_and_generate(pt, key_name, 5, kd, SuitDigestAlgorithms("sha-256"), SuitKWAlgorithms("direct"), ks)
        content = tag + ep
    else:
        od = os.path.join(d, "shared-out" if entry == "main-same-dir" else f"o{step}")
        os.makedirs(od, exist_ok=True)
        fw = os.path.join(d, f"fw{step}.bin")
        open(fw, "wb").write(pt)
        cmd_encrypt.main(encrypt_subcommand="encrypt-and-generate", firmware=fw, key_name=key_name, key_id=5, context=kd, output_dir=od,
                         hash_alg="sha-256", kw_alg="direct", kms_script=ks, encrypt_script=es)
        info = open(os.path.join(od, "suit_encryption_info.bin"), "rb").read()
        content = open(os.path.join(od, "encrypted_content.bin"), "rb").read()
    pi, problems = parse_info(info)
    if pi is None or pi["iv"] is None:
        raise ValueError("encryption info unreadable: " + "; ".join(problems))
    return pi["iv"], content, pi["protected"]


def check_step(key_name, iv, content, prot, pt):
    dec = refcose.aes_gcm_decrypt(vkeys.aes_key(key_name), iv, content[16:], content[:16], refcose.enc_structure(prot))
    return dec == pt


MODES = ("owned", "owned-repro", "real")


def hist_init():
    return [((m,), ("mode", m)) for m in MODES]


def _env_of(mode, collide=None):
    return Owned(collide, repro=(mode == "owned-repro")) if mode.startswith("owned") else _Real()


def hist_step(hist, agg, expand):
    hist = tuplify(hist)
    mode, steps = hist[0], hist[1:]
    env = _env_of(mode)
    if not _run_history(mode, steps, env, agg, ""):
        return []
    # deviation 1 of the entropy source: each single short-draw collision in turn (none on a tree that draws 12 bytes at once)
    for j in range(1, getattr(env, "short", 0)):
        if not _run_history(mode, steps, _env_of(mode, j), agg, f" [short entropy draw {j + 1} repeats draw {j}]"):
            return []
    agg.ok(h8("c14", hist), f"ok:{mode}:steps={len(steps)}", nontrivial=len(steps) > 0,
           sample={"mode": mode, "history": [ALPHABET[x] for x in steps]} if len(steps) == 2 and steps[0] == 5 and steps[1] == 3 else None)
    if not expand or (mode != "owned" and len(steps) >= REAL_DEPTH[0]):
        return []
    return [(str(ALPHABET[i]), hist + (i,), None) for i in range(len(ALPHABET))]


def _run_history(mode, steps, env, agg, note):
    from suit_generator import cmd_encrypt
    seen = {}       # key name -> {iv: step}
    with fresh_dir("c14") as d, env:
        obj = None
        for si, ai in enumerate(steps):
            p, o, e, k = ALPHABET[ai]
            if obj is None or o == "new":
                obj = cmd_encrypt._import_encryptor(escripts()[0])
            label = f"{mode} entropy{note}, history {[ALPHABET[x] for x in steps[:si + 1]]}"
            try:
                iv, content, prot = one_step(obj, PT[p], k, e, d, si)
            except Exception as ex:
                agg.viol(f"C14:encrypt-failed/{type(ex).__name__}", f"{label}: {type(ex).__name__}: {str(ex)[:200]}")
                return False
            if len(iv) != 12:
                agg.viol("C14:iv-length", f"{label}: published IV has {len(iv)} bytes")
                return False
            if not check_step(k, iv, content, prot, PT[p]):
                agg.viol("C14:published-iv-not-used", f"{label}: the ciphertext of step {si} does not decrypt with the IV published for it ({iv.hex()})")
                return False
            if iv in seen.setdefault(k, {}):
                agg.viol("C14:iv-reuse" + ("/short-entropy" if note else ""), f"{label}: IV {iv.hex()} of step {si} was already published at step {seen[k][iv]} under the same key {k}",
                         artefacts={"iv": iv.hex(), "mode": mode})
                return False
            seen[k][iv] = si
    return True


# -- the KMS object driven directly (a reused KMS is the other place where an IV could be cached) -----------------

KMS_ALPHABET = [(p, o, k) for p in ("A", "B", "E") for o in ("reuse", "new") for k in ("aes", "aes_b")]


def kms_step(hist, agg, expand):
    from .c04 import _kms
    hist = tuplify(hist)
    mode, steps = hist[0], hist[1:]
    env = _env_of(mode)
    if not _run_kms_history(mode, steps, env, agg, ""):
        return []
    for j in range(1, getattr(env, "short", 0)):
        if not _run_kms_history(mode, steps, _env_of(mode, j), agg, f" [short entropy draw {j + 1} repeats draw {j}]"):
            return []
    agg.ok(h8("c14k", hist), f"ok:kms:{mode}:steps={len(steps)}", nontrivial=len(steps) > 0,
           sample={"mode": mode, "kms_history": [KMS_ALPHABET[x] for x in steps]} if len(steps) == 2 and steps == (1, 6) else None)
    if not expand or (mode == "owned-repro" and len(steps) >= REAL_DEPTH[0]):
        return []
    return [(str(KMS_ALPHABET[i]), hist + (i,), None) for i in range(len(KMS_ALPHABET))]


def _run_kms_history(mode, steps, env, agg, note):
    from .c04 import _kms
    aad = refcose.enc_structure(bytes.fromhex("a10103"))
    seen = {}
    with env:
        kms = None
        for si, ai in enumerate(steps):
            p, o, k = KMS_ALPHABET[ai]
            if kms is None or o == "new":
                kms = _kms().suit_kms_factory()
                kms.init_kms(vkeys.key_dir())
            label = f"{mode} entropy{note}, KMS history {[KMS_ALPHABET[x] for x in steps[:si + 1]]}"
            try:
                if OWNED_ACTIVE[0]:
                    import random
                    random.seed(20240926)
                nonce, tag, ct = kms.encrypt(plaintext=PT[p], key_name=k, context=vkeys.key_dir(), aad=aad)
            except Exception as ex:
                agg.viol(f"C14:kms-encrypt-failed/{type(ex).__name__}", f"{label}: {ex}")
                return False
            if refcose.aes_gcm_decrypt(vkeys.aes_key(k), nonce, ct, tag, aad) != PT[p]:
                agg.viol("C14:published-iv-not-used", f"{label}: KMS output does not decrypt with the nonce it returned")
                return False
            if nonce in seen.setdefault(k, {}):
                agg.viol("C14:iv-reuse/kms" + ("/short-entropy" if note else ""), f"{label}: nonce {nonce.hex()} of step {si} already returned at step {seen[k][nonce]} under key {k}")
                return False
            seen[k][nonce] = si
    return True


# -- fresh interpreters ------------------------------------------------------------------------------

def run_fresh(case, agg):
    es, ks = escripts()
    kd = vkeys.key_dir()
    n = case["n"]
    ivs = {}
    with fresh_dir("c14f") as d:
        fw = os.path.join(d, "fw.bin")
        open(fw, "wb").write(PT["A"])
        for i in range(n):
            od = os.path.join(d, f"o{i}")
            os.makedirs(od)
            rc, so, se = impl.cli(["encrypt", "encrypt-and-generate", "--firmware", fw, "--key-name", "aes", "--key-id", "5", "--context", kd,
                                   "--output-dir", od, "--kms-script", ks, "--encrypt-script", es], d,
                                  extra_env=REPRO_ENV if i % 2 else None)     # every other one inside a "reproducible build"
            if rc != 0:
                agg.viol("C14:cli-failed", f"fresh interpreter {i}: rc={rc} {se[-200:]}")
                return
            info = open(os.path.join(od, "suit_encryption_info.bin"), "rb").read()
            content = open(os.path.join(od, "encrypted_content.bin"), "rb").read()
            pi, _ = parse_info(info)
            iv = pi["iv"]
            if not check_step("aes", iv, content, pi["protected"], PT["A"]):
                agg.viol("C14:published-iv-not-used", f"fresh interpreter {i}: ciphertext does not decrypt with its published IV")
                return
            if iv in ivs:
                agg.viol("C14:iv-reuse/across-processes", f"fresh interpreters {ivs[iv]} and {i} (same firmware, same key) published the same IV {iv.hex()}")
                return
            ivs[iv] = i
    agg.ok(h8("c14f", case), f"ok:fresh-interpreters={n}", sample={"fresh_interpreters": n, "distinct_ivs": len(ivs)})


class _FreshStage(CaseStage):
    replayable = False


# -- long histories ----------------------------------------------------------------------------------

def run_long(case, agg):
    from suit_generator import cmd_encrypt
    n = case["n"]
    obj = cmd_encrypt._import_encryptor(escripts()[0])
    seen = {}
    out = case.get("dump")
    for i in range(n):
        try:
            iv, content, prot = one_step(obj, PT["A"], "aes", "lib", None, i)
        except Exception as ex:
            agg.viol(f"C14:encrypt-failed/{type(ex).__name__}", f"long history step {i}: {ex}")
            return
        if iv in seen:
            agg.viol("C14:iv-reuse", f"long history of identical plaintexts: IV {iv.hex()} of step {i} already used at step {seen[iv]}")
            return
        if not check_step("aes", iv, content, prot, PT["A"]):
            agg.viol("C14:published-iv-not-used", f"long history step {i}: does not decrypt with its published IV")
            return
        seen[iv] = i
    if out:
        with open(os.path.join(core.run_scratch(), f"c14-ivs-{case['part']}.bin"), "wb") as fh:
            fh.write(b"".join(seen))
    agg.ok(h8("c14l", case), f"ok:long={n}", sample={"steps_in_one_interpreter": n, "distinct_ivs": len(seen)})


def run_union(case, agg):
    ivs = set()
    total = 0
    for f in glob.glob(os.path.join(core.run_scratch(), "c14-ivs-*.bin")):
        data = open(f, "rb").read()
        for i in range(0, len(data), 12):
            ivs.add(data[i:i + 12])
            total += 1
    if total and len(ivs) != total:
        agg.viol("C14:iv-reuse/across-processes", f"{total} encryptions over several interpreters published only {len(ivs)} distinct IVs")
    else:
        agg.ok(h8("c14u", total), f"ok:union={total}", nontrivial=total > 0, sample={"interpreters_united": len(glob.glob(os.path.join(core.run_scratch(), 'c14-ivs-*.bin'))), "ivs": total})

# -- processes forked from one that has already encrypted ("one process or many") -----------------------------------

def fork_cases(tier):
    return [{"before": b, "children": c, "each": 3, "entry": e} for b in (0, 1, 3) for c in ((2,) if tier == "quick" else (2, 4)) for e in ("lib", "main")]


def run_fork(case, agg):
    """a process that has encrypted `before` images forks (a build system's worker pool); every child and the parent
    go on encrypting the same firmware with the same key: all published IVs of the family are pairwise distinct and
    every ciphertext decrypts with its published IV (real entropy)"""
    from suit_generator import cmd_encrypt
    import pickle
    obj = cmd_encrypt._import_encryptor(escripts()[0])
    label = f"{case['before']} encryptions, then fork into {case['children']} children x {case['each']} encryptions ({case['entry']})"
    with fresh_dir("c14k") as d:
        res = []
        try:
            for i in range(case["before"]):
                res.append(("parent-before", i) + one_step(obj, PT["A"], "aes", case["entry"], d, i))
            pids = []
            for c in range(case["children"]):
                pid = os.fork()
                if pid == 0:
                    rc = 0
                    try:
                        cd = os.path.join(d, f"child{c}")
                        os.makedirs(cd)
                        mine = [(f"child{c}", i) + one_step(obj, PT["A"], "aes", case["entry"], cd, i) for i in range(case["each"])]
                        with open(os.path.join(d, f"res{c}.pkl"), "wb") as fh:
                            pickle.dump(mine, fh)
                    except BaseException as ex:
                        with open(os.path.join(d, f"err{c}.txt"), "w") as fh:
                            fh.write(f"{type(ex).__name__}: {ex}")
                        rc = 1
                    finally:
                        os._exit(rc)
                pids.append(pid)
            for i in range(case["each"]):
                res.append(("parent-after", i) + one_step(obj, PT["A"], "aes", case["entry"], d, 100 + i))
            for pid in pids:
                os.waitpid(pid, 0)
            for c in range(case["children"]):
                f = os.path.join(d, f"res{c}.pkl")
                if not os.path.exists(f):
                    err = open(os.path.join(d, f"err{c}.txt")).read() if os.path.exists(os.path.join(d, f"err{c}.txt")) else "no result"
                    agg.viol("C14:encrypt-failed/forked-child", f"{label}: child {c}: {err[:300]}")
                    return
                res += pickle.load(open(f, "rb"))
        except Exception as ex:
            agg.viol(f"C14:encrypt-failed/{type(ex).__name__}", f"{label}: {ex}")
            return
    seen = {}
    for who, i, iv, content, prot in res:
        if not check_step("aes", iv, content, prot, PT["A"]):
            agg.viol("C14:published-iv-not-used", f"{label}: {who} step {i}: the ciphertext does not decrypt with the published IV {iv.hex()}")
            return
        if iv in seen:
            agg.viol("C14:iv-reuse/across-processes", f"{label}: {who} step {i} published the IV {iv.hex()} that {seen[iv][0]} step {seen[iv][1]} published (same key)")
            return
        seen[iv] = (who, i)
    agg.ok(h8("c14k", case), f"ok:forked:{case['entry']}", sample={**case, "distinct_ivs": len(seen)} if case["before"] == 1 else None)


class _LongStage(CaseStage):
    replayable = False


REAL_DEPTH = [2]


RULE += ". Further stages: " + 'forked-processes - a process that has encrypted 0/1/3 images forks, children and parent encrypt on (real entropy, all IVs of the family pairwise distinct)'


def plan(tier):
    q = tier == "quick"
    REAL_DEPTH[0] = 2 if q else 3
    st = [
        BfsStage("histories", hist_init, hist_step, max_depth=3 if q else 4, dedupe=False,
                 rule="encryption histories over a 24-letter alphabet, owned and real entropy"),
        BfsStage("kms-histories", hist_init, kms_step, max_depth=3 if q else 4, dedupe=False,
                 rule="SuitKMS.encrypt histories on reused / new KMS objects, owned and real entropy"),
        _FreshStage("fresh-interpreters", [{"n": 8 if q else 64}], run_fresh, serial=True, rule="N CLI subprocesses, same firmware and key"),
        _LongStage("long-history", [{"n": 1000 if q else 20000}], run_long, serial=True, rule="identical plaintexts in one interpreter"),
    ]
    st.append(_LongStage("forked-processes", lambda: fork_cases(tier), run_fork, chunk=1,
                         rule="{0,1,3} encryptions, then fork into 2 (thorough: 2, 4) children; children and parent encrypt 3 more each; library / main"))
    if not q:
        st.append(_LongStage("many-interpreters", [{"n": 6250, "dump": True, "part": i} for i in range(16)], run_long, chunk=1,
                             rule="16 worker interpreters x 6250 steps, IV sets dumped"))
        st.append(_LongStage("union", [{}], run_union, serial=True, rule="union of the IV sets of all interpreters"))
    return st
