"""C10 - DFU cache partitions are well-formed, aligned and content-preserving."""
from __future__ import annotations

import itertools
import os

from .. import core, refcbor
from ..core import CaseStage, BfsStage, fresh_dir, h8, seed_slice

LEVEL = "model_checking"
RULE = ("plane: every (erase-block size, slot-length residue, URI head width) of the stated sets, two slots per cache, "
        "through CachePartition.add_cache_slot/close_and_save_cache and (rotating slice) cmd_cache_create.main with "
        "files; sequences: breadth-first over add-slot histories (alphabet: 5 length residues x {new URI, URI of "
        "the first slot}) with states deduplicated by the hash of the cache bytes; merge: all ordered pairs/triples "
        "of a pool of caches and merges of merged caches; from_envelope on synthetic envelopes. A case is "
        "non-trivial when the tool produced a cache file that the reference CBOR walker accepted or a refusal was "
        "compared with the reference model; distinct = distinct (eb, lengths, URIs) tuples.")
ASSUMPTIONS = ["reference CBOR walker svmc/refcbor.py is correct (self-tested against fixed vectors and cbor2)",
               "URIs are non-empty (the format reserves the empty key for padding)"]
BOUNDS = {"quick": "eb in 1..64 + powers of two to 65536, payload lengths 0..eb+2, sequences depth<=4",
          "thorough": "eb in 1..512 + powers of two to 65536, payload lengths 0..2*eb+2, sequences depth<=6"}


def _mod():
    from suit_generator import cmd_cache_create
    return cmd_cache_create


# ---------------------------------------------------------------------------------------------------
# Oracle
# ---------------------------------------------------------------------------------------------------

def walk_cache(data: bytes, eb: int):
    """Return (pairs, problems): pairs = [(uri, payload, key_offset)], problems = list of strings."""
    problems = []
    if not data:
        return [], ["empty file"]
    if data[0] != 0xBF:
        return [], [f"first byte is 0x{data[0]:02X}, not 0xBF"]
    pos = 1
    pairs = []
    closed = False
    while pos < len(data):
        if data[pos] == 0xFF:
            closed = True
            pos += 1
            break
        try:
            k = refcbor.decode_at(data, pos)
            v = refcbor.decode_at(data, k.end)
        except refcbor.CborError as e:
            return pairs, problems + [f"undecodable entry at {pos}: {e}"]
        if k.kind != "tstr" or k.indef:
            problems.append(f"key at {pos} is {k.kind}, not a definite text string")
        if v.kind != "bstr" or v.indef:
            problems.append(f"value at {v.start} is {v.kind}, not a definite byte string")
            pos = v.end
            continue
        if k.kind == "tstr" and k.value == "":
            if any(v.value):
                problems.append(f"padding entry at {pos} carries non-zero bytes")
        else:
            if data[v.start] != 0x5A or v.head != 5:
                problems.append(f"payload length of {k.value!r} at {v.start} not in fixed 4-byte form (0x{data[v.start]:02X})")
            if pairs and k.start % eb != 0:
                problems.append(f"slot {k.value!r} begins at offset {k.start}, not a multiple of eb={eb}")
            pairs.append((k.value, v.value, k.start))
        pos = v.end
    if not closed:
        problems.append("map is not terminated by 0xFF")
    elif pos != len(data):
        problems.append(f"{len(data) - pos} bytes after the terminating 0xFF")
    return pairs, problems


def check_cache(data, eb, expected_pairs):
    pairs, problems = walk_cache(data, eb)
    got = [(u, p) for u, p, _ in pairs]
    if not problems and got != expected_pairs:
        problems.append(f"decoded pairs differ from supplied pairs: got {[(u, len(p)) for u, p in got]} "
                        f"expected {[(u, len(p)) for u, p in expected_pairs]}")
    return problems


def payload(n, salt=0):
    # position dependent, never all-zero for n>0, so truncation / shifting is visible
    return bytes(((i * 7 + salt * 13 + 1) % 251) + 1 for i in range(n))


def uri_of_len(n, tag="a"):
    base = f"{tag}:"
    return (base + "x" * n)[:n] if n >= len(base) else tag[:n] or "u"


# ---------------------------------------------------------------------------------------------------
# Stage A: the residue plane
# ---------------------------------------------------------------------------------------------------

URI_LENS = [1, 5, 23, 24, 255, 256]
BIG_EB = [1024, 2048, 4096, 8192, 16384, 32768, 65536]


def plane_cases(tier):
    small = range(1, 65) if tier == "quick" else range(1, 513)
    extra = [128, 256, 512] if tier == "quick" else []
    cases = []
    idx = 0
    for eb in list(small) + extra:
        top = eb + 2 if tier == "quick" else 2 * eb + 2
        for ul in URI_LENS:
            cases.append({"eb": eb, "ul": ul, "pl": list(range(0, top + 1)), "i": idx})
            idx += 1
    for eb in BIG_EB:
        for ul in URI_LENS:
            # slot length (first slot) = 1 + head(ul) + ul + 5 + paylen ; pick paylens hitting the special residues
            hl = len(refcbor.head(3, ul))
            base = 1 + hl + ul + 5
            want = [0, 1, 2, 3, 4, 23, 24, 25, eb - 25, eb - 24, eb - 23, eb - 3, eb - 2, eb - 1]
            pls = sorted({(r - base) % eb for r in want} | {(r - base) % eb + eb for r in (0, 1, 2)})
            cases.append({"eb": eb, "ul": ul, "pl": pls, "i": idx})
            idx += 1
    return cases


def run_plane(case, agg):
    cc = _mod()
    eb, ul = case["eb"], case["ul"]
    u1, u2 = uri_of_len(ul, "a"), uri_of_len(ul, "b") if ul > 1 else "b"
    with fresh_dir("c10") as d:
        out = os.path.join(d, "cache.bin")
        for j, pl in enumerate(case["pl"]):
            p1, p2 = payload(pl, 1), payload(3, 2)
            key = h8("plane", eb, ul, pl)
            one = {"eb": eb, "ul": ul, "pl": [pl], "i": case["i"]}
            via_main = seed_slice(case["i"] * 7 + j, 97)
            try:
                if via_main:
                    from .. import impl
                    impl.prefill(out)
                    f1, f2 = os.path.join(d, impl.odd_name("p1", "bin", key)), os.path.join(d, impl.odd_name("p2", "bin", key))
                    open(f1, "wb").write(p1)
                    open(f2, "wb").write(p2)
                    cc.main(cache_create_subcommand="from_payloads", output_file=out, eb_size=eb,
                            input=[f"{u1},{f1}", f"{u2},{f2}"])
                else:
                    c = cc.CachePartition(eb)
                    c.add_cache_slot(u1, p1)
                    c.add_cache_slot(u2, p2)
                    c.close_and_save_cache(out)
            except ValueError as e:
                # the only legitimate refusal: padding need above 0xFFFF
                need = _padding_need(eb, ul, pl)
                if need > 0xFFFF:
                    agg.rej(key, "refused:padding>0xFFFF", nontrivial=True)
                else:
                    agg.viol("C10:unexpected-refusal", f"eb={eb} uri_len={ul} payload_len={pl}: {type(e).__name__}: {e} "
                             f"(padding need {need})", case=one)
                continue
            except Exception as e:
                agg.viol(f"C10:crash/{type(e).__name__}", f"eb={eb} uri_len={ul} payload_len={pl}: {e}", case=one)
                continue
            data = open(out, "rb").read()
            os.unlink(out)
            problems = check_cache(data, eb, [(u1, p1), (u2, p2)])
            if problems:
                agg.viol("C10:" + _classify(problems[0]), f"eb={eb} uri_len={ul} payload_len={pl}: " + "; ".join(problems[:3]),
                         artefacts={"cache_head_hex": data[:96].hex(), "size": len(data)}, case=one)
            else:
                agg.ok(key, "ok:main" if via_main else "ok:api",
                       sample={"eb": eb, "uri_len": ul, "payload_len": pl, "file_size": len(data)} if j == 0 else None)


def _padding_need(eb, ul, pl):
    # reference computation of the padding the first or second slot needs (minimum padding entry is 2 bytes)
    worst = 0
    for first, n in ((1, pl), (0, 3)):
        slot = first + len(refcbor.head(3, ul)) + ul + 5 + n
        pad = (-slot) % eb
        if pad == 1:
            pad += eb
        worst = max(worst, pad)
    return worst


def _classify(problem: str) -> str:
    for word, tag in (("multiple of eb", "misaligned-slot"), ("fixed 4-byte", "payload-length-width"),
                      ("not terminated", "unterminated"), ("after the terminating", "trailing-bytes"),
                      ("non-zero", "padding-nonzero"), ("undecodable", "undecodable"), ("first byte", "no-open"),
                      ("differ from supplied", "pairs-differ"), ("not a definite", "entry-type")):
        if word in problem:
            return tag
    return "malformed"


# ---------------------------------------------------------------------------------------------------
# Stage B: add-slot histories (BFS)
# ---------------------------------------------------------------------------------------------------

SEQ_EB = [4, 16, 64]
RES = ["r0", "r1", "r2", "mid", "last"]   # residue class of the slot's total length modulo eb


def _len_for_residue(eb, first, uri, res):
    base = (1 if first else 0) + len(refcbor.enc(uri)) + 5
    r = {"r0": 0, "r1": 1, "r2": 2, "mid": eb // 2, "last": eb - 1}[res] % eb
    return (r - base) % eb


def seq_init():
    return [((("eb", eb),), ("eb", eb)) for eb in SEQ_EB]


def _build_history(cc, hist):
    """hist = (("eb",eb), (res, dup), ...) -> (cache object or None, expected pairs, refused: bool)."""
    eb = hist[0][1]
    c = cc.CachePartition(eb)
    pairs = []
    for i, (res, dup) in enumerate(hist[1:]):
        uri = pairs[0][0] if (dup and pairs) else (f"file://slot{i}.bin", "cache://zażółć/€.bin", "x" * 24 + "é", "#3")[i % 4] if i < 4 else f"file://slot{i}.bin"
        data = payload(_len_for_residue(eb, i == 0, uri, res), i)
        if dup and pairs:
            try:
                c.add_cache_slot(uri, data)
            except ValueError:
                return c, pairs, True
            return c, pairs + [(uri, data)], "accepted-duplicate"
        c.add_cache_slot(uri, data)
        pairs.append((uri, data))
    return c, pairs, False


def seq_step(hist, agg, expand):
    cc = _mod()
    hist = core.tuplify(hist)
    eb = hist[0][1]
    key = h8("seq", hist)
    try:
        c, pairs, refused = _build_history(cc, hist)
    except Exception as e:
        agg.viol(f"C10:crash/{type(e).__name__}", f"history {hist}: {e}")
        return []
    if refused == "accepted-duplicate":
        agg.viol("C10:duplicate-uri-accepted", f"history {hist}: second slot with URI {pairs[-1][0]!r} was accepted")
        return []
    if refused:
        agg.rej(key, "refused:duplicate-uri", nontrivial=True)
        return []   # the object raised; the property only demands the refusal
    if not pairs:
        agg.ok(key, "empty", nontrivial=False)
    else:
        with fresh_dir("c10s") as d:
            out = os.path.join(d, "c.bin")
            c.close_and_save_cache(out)
            data = open(out, "rb").read()
        problems = check_cache(data, eb, pairs)
        if problems:
            agg.viol("C10:" + _classify(problems[0]), f"history {hist}: " + "; ".join(problems[:3]),
                     artefacts={"cache_hex": data[:256].hex()})
        else:
            agg.ok(key, f"ok:slots={len(pairs)}", sample={"history": hist, "file_size": len(data)})
    succ = []
    if expand:
        for res in RES:
            for dup in ((False, True) if pairs else (False,)):
                h2 = hist + ((res, dup),)
                # canonical key: the state is the byte content reached so far plus the pending choice; histories
                # never merge (URIs differ per position) except through identical (eb, choices)
                succ.append((f"add:{res}:{'dup' if dup else 'new'}", h2, h8("seqstate", h2)))
    return succ


# ---------------------------------------------------------------------------------------------------
# Stage C: merge
# ---------------------------------------------------------------------------------------------------

POOL = [
    # (eb, [(uri, payload_len)])
    (4, [("a", 0)]),
    (4, [("b", 1), ("c", 6)]),
    (16, [("d", 3), ("e", 16), ("f", 17)]),
    (16, [("a", 5)]),                       # shares URI "a" with pool[0]
    (64, [("g", 100), ("h", 1)]),
    (64, [("cache://x/y.bin", 70000)]),     # payload above 64 KiB
    (1, [("i", 2), ("j", 0)]),
    (16, [("f", 2), ("k", 4)]),             # shares URI "f" with pool[2]
    (8, [("A", 3), ("a ", 4), (" a", 1), ("file://A.BIN", 9)]),     # differ from other URIs only in case / surrounding blanks: all distinct
]
MERGE_EB = [4, 16, 64]


def merge_cases(tier):
    cases = []
    n = len(POOL)
    idxs = range(n)
    for eb in MERGE_EB:
        for k in (1, 2, 3):
            for combo in itertools.product(idxs, repeat=k):
                cases.append({"eb": eb, "inputs": list(combo), "nested": False})
        # merge of merged caches: merge(merge(a,b), c) and merge(a, merge(b,c))
        for a, b, c in itertools.product(idxs, repeat=3):
            if tier == "quick" and (a + b + c) % 2:
                continue
            cases.append({"eb": eb, "inputs": [a, b, c], "nested": "left"})
            cases.append({"eb": eb, "inputs": [a, b, c], "nested": "right"})
    return cases


def _make_pool_file(cc, d, i):
    eb, slots = POOL[i]
    c = cc.CachePartition(eb)
    pairs = []
    for j, (u, n) in enumerate(slots):
        p = payload(n, i * 5 + j)
        c.add_cache_slot(u, p)
        pairs.append((u, p))
    path = os.path.join(d, f"pool{i}.bin")
    c.close_and_save_cache(path)
    return path, pairs


def _merge(cc, eb, inputs, out):
    cc.main(cache_create_subcommand="merge", input=inputs, output_file=out, eb_size=eb)


def run_merge(case, agg):
    cc = _mod()
    eb = case["eb"]
    key = h8("merge", case)
    with fresh_dir("c10m") as d:
        files, plist = [], []
        for n, i in enumerate(case["inputs"]):
            p, pairs = _make_pool_file(cc, d, i)
            q = os.path.join(d, f"in{n}.bin")
            os.rename(p, q)
            files.append(q)
            plist.append(pairs)
        out = os.path.join(d, "out.bin")

        def expect(groups):
            allp = [x for g in groups for x in g]
            uris = [u for u, _ in allp]
            return None if len(set(uris)) != len(uris) else allp

        def do(eb_, ins, groups, outp):
            """returns merged pairs or None when refused (and checks refusal legitimacy)."""
            exp = expect(groups)
            try:
                _merge(cc, eb_, ins, outp)
            except ValueError as e:
                if exp is None:
                    if os.path.exists(outp):
                        return "refused-but-output"
                    return None
                return f"unexpected refusal: {e}"
            except Exception as e:
                return f"crash {type(e).__name__}: {e}"
            if exp is None:
                return "duplicate-accepted"
            data = open(outp, "rb").read()
            problems = check_cache(data, eb_, exp)
            if problems:
                return "malformed: " + "; ".join(problems[:3])
            return exp

        if not case["nested"]:
            r = do(eb, files, plist, out)
        else:
            mid = os.path.join(d, "mid.bin")
            if case["nested"] == "left":
                r1 = do(16, files[:2], plist[:2], mid)
                r = r1 if not isinstance(r1, list) else do(eb, [mid, files[2]], [r1, plist[2]], out)
            else:
                r1 = do(16, files[1:], plist[1:], mid)
                r = r1 if not isinstance(r1, list) else do(eb, [files[0], mid], [plist[0], r1], out)
        if r is None:
            agg.rej(key, "refused:duplicate-uri", nontrivial=True)
        elif isinstance(r, list):
            agg.ok(key, f"ok:pairs={len(r)}", sample={"eb": eb, "inputs": case["inputs"], "nested": case["nested"],
                                                      "pairs": [(u, len(p)) for u, p in r]})
        elif r == "duplicate-accepted":
            agg.viol("C10:merge/duplicate-uri-accepted", f"merge {case}: duplicate URI silently accepted")
        elif r == "refused-but-output":
            agg.viol("C10:merge/refusal-left-output", f"merge {case}: refused but an output file exists")
        elif r.startswith("malformed"):
            agg.viol("C10:merge/" + _classify(r), f"merge {case}: {r}")
        else:
            agg.viol("C10:merge/" + r.split(":")[0].replace(" ", "-"), f"merge {case}: {r}")


# ---------------------------------------------------------------------------------------------------
# Stage D: from_envelope (cache side only; conservation of the envelope side is C11)
# ---------------------------------------------------------------------------------------------------

def env_cases(tier):
    cases = []
    for eb in (1, 4, 16, 64, 256):
        for names in (["#a"], ["#a", "#b"], ["#a", "cache://x", "#b"], ["file://" + "n" * 300]):
            for ln in ((0, 1, 5) if tier == "quick" else (0, 1, 2, 5, 23, 24, 255, 256, 70000)):
                cases.append({"eb": eb, "names": names, "len": ln})
    return cases


def run_env(case, agg):
    cc = _mod()
    eb = case["eb"]
    key = h8("env", case)
    members = {2: refcbor.enc([refcbor.enc([-16, b"\x00" * 32])]), 3: refcbor.enc({1: 1, 2: 0, 3: refcbor.enc({})})}
    pairs = []
    for i, n in enumerate(case["names"]):
        p = payload(case["len"] + i, i)
        members[n] = p
        pairs.append((n, p))
    env = refcbor.enc(refcbor.Tag(107, members))
    with fresh_dir("c10e") as d:
        inp, oute, outc = (os.path.join(d, x) for x in ("in.suit", "out.suit", "cache.bin"))
        open(inp, "wb").write(env)
        try:
            cc.main(cache_create_subcommand="from_envelope", input_envelope=inp, output_envelope=oute,
                    output_file=outc, eb_size=eb, omit_payload_regex=None, dependency_regex=None)
        except Exception as e:
            agg.viol(f"C10:from_envelope/{type(e).__name__}", f"{case}: {e}")
            return
        data = open(outc, "rb").read()
    problems = check_cache(data, eb, pairs)
    if problems:
        agg.viol("C10:from_envelope/" + _classify(problems[0]), f"{case}: " + "; ".join(problems[:3]))
    else:
        agg.ok(key, "ok:from_envelope", sample={"eb": eb, "names": case["names"], "len": case["len"]})


# -- URI alphabet through the from_payloads entry point ("<URI>,<FILE>" arguments) --------------------------------

URI_ALPHABET = ["a", "A", " a", "a ", "\ta", "a\u00a0", " ", "file://x/ y.bin", "FILE://X/Y.BIN", "#", "é", "\u20ac\U0001D11E", "u" * 300, "a\nb"]


def uri_cases(tier):
    import itertools as it
    return [{"uris": list(p)} for p in it.permutations(range(len(URI_ALPHABET)), 2) if p[0] < 6 or p[1] < 6]


def run_uris(case, agg):
    cc = _mod()
    uris = [URI_ALPHABET[i] for i in case["uris"]]
    pairs = [(u, payload(5 + i, i)) for i, u in enumerate(uris)]
    with fresh_dir("c10u") as d:
        out = os.path.join(d, "c.bin")
        args = []
        for i, (u, p) in enumerate(pairs):
            from .. import impl
            f = os.path.join(d, impl.odd_name(f"p{i}", "bin", u))
            open(f, "wb").write(p)
            args.append(f"{u},{f}")
        try:
            cc.main(cache_create_subcommand="from_payloads", output_file=out, eb_size=8, input=args)
        except Exception as e:
            agg.viol(f"C10:uri/{type(e).__name__}", f"URIs {uris!r}: distinct non-empty URIs refused: {type(e).__name__}: {e}")
            return
        data = open(out, "rb").read()
    problems = check_cache(data, 8, pairs)
    if problems:
        agg.viol("C10:uri/" + _classify(problems[0]), f"URIs {uris!r}: " + "; ".join(problems[:2]))
    else:
        agg.ok(h8("c10u", case), "ok:uri", sample={"uris": uris} if case["uris"] == [2, 3] else None)


# -- the real CLI ---------------------------------------------------------------------------------------------

def cli_cases(tier):
    return [{"sub": sub, "eb": eb} for sub in ("from_payloads", "merge", "from_envelope") for eb in (None, "1", "8", "64", "4096")]


def run_cli(case, agg):
    from .. import impl
    eb = int(case["eb"]) if case["eb"] else 16          # documented default
    ebarg = ["--eb-size", case["eb"]] if case["eb"] else []
    with fresh_dir("c10cli") as d:
        out = os.path.join(d, "c.bin")
        pairs = [("file://a.bin", payload(37, 1)), ("cache://zażółć/€", payload(0, 2)), ("#c", payload(300, 3))]
        files = []
        for i, (u, p) in enumerate(pairs):
            f = os.path.join(d, f"p{i}.bin")
            open(f, "wb").write(p)
            files.append(f)
        if case["sub"] == "from_payloads":
            args = ["cache_create", "from_payloads", "--output-file", out] + ebarg
            for (u, _), f in zip(pairs, files):
                args += ["--input", f"{u},{f}"]
        elif case["sub"] == "merge":
            c1, c2 = os.path.join(d, "c1.bin"), os.path.join(d, "c2.bin")
            cc = _mod()
            a = cc.CachePartition(4)
            a.add_cache_slot(*pairs[0])
            a.close_and_save_cache(c1)
            b = cc.CachePartition(32)
            b.add_cache_slot(*pairs[1])
            b.add_cache_slot(*pairs[2])
            b.close_and_save_cache(c2)
            args = ["cache_create", "merge", "--output-file", out, "--input", c1, "--input", c2] + ebarg
        else:
            env = refcbor.enc(refcbor.Tag(107, {2: b"\x81\x40", 3: b"\xa0", **{u: p for u, p in pairs}}))
            ein = os.path.join(d, "in.suit")
            open(ein, "wb").write(env)
            args = ["cache_create", "from_envelope", "--output-file", out, "--input-envelope", ein, "--output-envelope", os.path.join(d, "out.suit")] + ebarg
        rc, so, se = impl.cli(args, d)
        if rc != 0:
            agg.viol(f"C10:cli/{case['sub']}-failed", f"{case}: rc={rc} {se[-300:]}")
            return
        data = open(out, "rb").read()
    problems = check_cache(data, eb, pairs)
    if problems:
        agg.viol(f"C10:cli/{_classify(problems[0])}", f"{case} (erase block {eb}): " + "; ".join(problems[:3]))
    else:
        agg.ok(h8("c10cli", case), f"ok:cli:{case['sub']}", sample=case if case["eb"] is None else None)

# ---------------------------------------------------------------------------------------------------
# Stage: what the payload bytes look like (erased flash, padding, a CBOR break, a cache file of its own)
# ---------------------------------------------------------------------------------------------------
CONTENT_STYLES = ["pattern", "ends-ff", "starts-ff-ends-00", "all-ff", "all-00", "ends-break-like-ffff", "looks-like-a-cache", "starts-with-empty-key"]


def styled(n, style, salt=0):
    b = bytearray(payload(n, salt))
    if not n:
        return bytes(b)
    if style == "ends-ff":
        b[-1] = 0xFF
    elif style == "starts-ff-ends-00":
        b[0], b[-1] = 0xFF, 0x00
    elif style == "all-ff":
        b[:] = b"\xff" * n
    elif style == "all-00":
        b[:] = bytes(n)
    elif style == "ends-break-like-ffff":
        b[-2:] = b"\xff\xff"[:min(2, n)]
    elif style == "looks-like-a-cache":
        img = b"\xbf\x61a\x5a\x00\x00\x00\x01\x07\x60\x41\x00\xff"
        b[:] = (img * (n // len(img) + 1))[:n]
    elif style == "starts-with-empty-key":
        b[:3] = b"\x60\x5a\x00"[:min(3, n)]
    return bytes(b)


def content_cases(tier):
    ebs = [1, 2, 8, 64] if tier == "quick" else [1, 2, 3, 4, 8, 16, 64, 256]
    out = []
    for eb in ebs:
        for nslots in (1, 2):
            for res in (RES if eb > 2 else ["r0"]):
                for s1 in CONTENT_STYLES:
                    for s2 in (CONTENT_STYLES if nslots == 2 else [None]):
                        out.append({"eb": eb, "n": nslots, "res": res, "s1": s1, "s2": s2})
    return out


def run_content(case, agg):
    """1-2 slots whose LAST slot has the given length residue, each payload in one of 8 byte styles; the file is written
    by the slot API, read back, then merged with a second cache and read back again"""
    cc = _mod()
    eb, res = case["eb"], case["res"]
    uris = ["file://first.bin", "cache://second.bin"][:case["n"]]
    pairs = []
    for i, u in enumerate(uris):
        last = i == len(uris) - 1
        n = _len_for_residue(eb, i == 0, u, res if last else "mid")
        if n < 4:
            n += eb * ((4 - n + eb - 1) // eb)
        pairs.append((u, styled(n, case["s1"] if i == 0 else case["s2"], i)))
    key = h8("c10c", case)
    label = f"eb={eb} slots={[(u, len(p_)) for u, p_ in pairs]} styles={case['s1']}/{case['s2']} last-slot residue {res}"
    with fresh_dir("c10c") as d:
        f1, f2, fm = os.path.join(d, "a.cache"), os.path.join(d, "b.cache"), os.path.join(d, "m.cache")
        try:
            c = cc.CachePartition(eb)
            for u, p_ in pairs:
                c.add_cache_slot(u, p_)
            c.close_and_save_cache(f1)
            data = open(f1, "rb").read()
            problems = check_cache(data, eb, pairs)
            if not problems:
                other = [("#other", styled(5, case["s1"], 9))]
                c2 = cc.CachePartition(eb)
                c2.add_cache_slot(*other[0])
                c2.close_and_save_cache(f2)
                cc.main(cache_create_subcommand="merge", input=[f1, f2], output_file=fm, eb_size=eb)
                problems = ["after merge with a second cache: " + x for x in check_cache(open(fm, "rb").read(), eb, pairs + other)]
        except Exception as e:
            agg.viol(f"C10:crash/{type(e).__name__}", f"{label}: {type(e).__name__}: {e}")
            return
    if problems:
        agg.viol("C10:" + _classify(problems[0].replace("after merge with a second cache: ", "")), f"{label}: " + "; ".join(problems[:3]), artefacts={"cache_hex": data[:256].hex(), "size": len(data)})
    else:
        agg.ok(key, f"ok:slots={case['n']}", sample=case if (case["s1"] == "ends-ff" and eb == 8 and res == "r0" and case["n"] == 1) else None)


RULE += ". Further stages: " + 'payload-content - 8 byte styles per payload (all 0xFF, all zero, 0xFF at the ends, break-like, cache look-alike, empty-key look-alike) x residue of the last slot x eb, written, read back, merged, read back'


def plan(tier):
    depth = 4 if tier == "quick" else 6
    return [
        CaseStage("plane", lambda: plane_cases(tier), run_plane, chunk=4, disjoint=True,
                  rule="eb x URI length x payload length (every residue), two slots"),
        BfsStage("sequences", seq_init, seq_step, max_depth=depth,
                 rule="add-slot histories; alphabet 5 residues x {new, duplicate URI}; eb in {4,16,64}"),
        CaseStage("payload-content", lambda: content_cases(tier), run_content,
                  rule="eb x 1-2 slots x residue of the last slot x 8 byte styles per payload (erased flash, zeros, 0xFF at the ends, break-like, cache look-alike); written, read back, merged, read back"),
        CaseStage("merge", lambda: merge_cases(tier), run_merge,
                  rule="ordered 1-3 tuples of a 9-cache pool x eb' in {4,16,64}, plus merges of merged caches"),
        CaseStage("uri-alphabet", lambda: uri_cases(tier), run_uris, rule="ordered pairs of URIs that differ in case / surrounding blanks / script, through from_payloads main"),
        CaseStage("cli", lambda: cli_cases(tier), run_cli, rule="real CLI: three sub-commands x --eb-size {default, 1, 8, 64, 4096}"),
        CaseStage("from_envelope", lambda: env_cases(tier), run_env,
                  rule="synthetic envelopes x eb x payload names x lengths through cmd main from_envelope"),
    ]
