"""C20 - version strings and default sequence numbers preserve release ordering."""
from __future__ import annotations

import itertools
import re
import os

from ..core import CaseStage, fresh_dir, h8, seed_slice

LEVEL = "exploration"
RULE = ("conversion: every string N(.N){0,2}[-(alpha|beta|rc)[.N]] over the stated field values is converted by the "
        "tool (SuitComponentVersion.from_obj(s).to_obj()), then ALL pairs (same arity; different arity when the "
        "shorter string has no pre-release label) are compared: the sign of zero-padded list comparison must equal "
        "the sign of semantic-version precedence computed by the verifier from the string itself; unsupported labels "
        "must raise ValueError. build glue: all (major,minor,patch,tweak) tuples of the stated set, all ordered "
        "pairs, x EXTRAVERSION forms through append_default_version_values / read_version_file and the manifest "
        "encoder. distinct = distinct pairs / tuples; non-trivial = both sides converted and compared")
ASSUMPTIONS = ["precedence as the property defines it: numeric per field (missing = 0), alpha < beta < rc < release, "
               "then pre-release number (missing = 0)",
               "mixed-arity pairs whose shorter string carries a label are outside the domain (DESIGN.md O1)"]
BOUNDS = {"quick": "fields in {0,1,2,10,255}: all pairs; every field value 0..300 one field at a time (arity 1..4, others 0); VERSION tuples {0,1,2,127,254,255}^4 all ordered pairs; every VERSION field value one at a time (others 0 / 1)",
          "thorough": "fields in {0,1,2,9,10,255,256,300}: all pairs; field sweeps with the others in {0,7,255}; VERSION sweeps with the others in {0,1,128,255}; VERSION tuples as quick x all EXTRAVERSION forms"}

LABELS = ["alpha", "beta", "rc"]
RANK = {"alpha": -3, "beta": -2, "rc": -1}
PRE_FORMS = [None] + [(l, n) for l in LABELS for n in (None, 0, 1, 10)]
BAD_LABELS = ["gamma", "dev", "pre", "a", "RC", "Alpha", "rc1", "alpha2", "snapshot", ""]


def all_strings(tier):
    ns = [0, 1, 2, 10, 255] if tier == "quick" else [0, 1, 2, 9, 10, 255, 256, 300]
    out = []
    for ar in (1, 2, 3):
        for rel in itertools.product(ns, repeat=ar):
            for pre in PRE_FORMS:
                s = ".".join(map(str, rel))
                if pre:
                    s += "-" + pre[0] + ("" if pre[1] is None else f".{pre[1]}")
                # oracle key straight from the construction (never from the tool's output)
                okey = tuple(rel) + (0,) * (3 - ar) + ((0, 0) if pre is None else (RANK[pre[0]], pre[1] or 0))
                out.append((s, ar, pre is not None, okey))
    return out


def _conv():
    from suit_generator.suit.manifest import SuitComponentVersion
    return SuitComponentVersion


_CACHE = {}


def converted(tier):
    """Convert every string once per process with the real tool."""
    if tier not in _CACHE:
        V = _conv()
        rows = []
        for s, ar, lab, okey in all_strings(tier):
            try:
                lst = V.from_obj(s).to_obj()
                if not (isinstance(lst, list) and all(isinstance(x, int) and not isinstance(x, bool) for x in lst)):
                    rows.append((s, ar, lab, okey, ("bad", repr(lst))))
                    continue
                rows.append((s, ar, lab, okey, tuple(lst)))
            except Exception as e:
                rows.append((s, ar, lab, okey, ("exc", f"{type(e).__name__}: {e}")))
        _CACHE[tier] = rows
    return _CACHE[tier]


def sign(a, b):
    return (a > b) - (a < b)


def pad(t, n):
    return t + (0,) * (n - len(t))


def run_pairs(case, agg):
    tier = case["tier"]
    rows = converted(tier)
    lo, hi = case["lo"], case["hi"]
    n = len(rows)
    ok = 0
    for i in range(lo, hi):
        s, ar, lab, okey, tl = rows[i]
        if tl and tl[0] in ("exc", "bad") and isinstance(tl[0], str):
            agg.viol("C20:convert/" + ("rejected-supported-string" if tl[0] == "exc" else "non-integer-list"),
                     f"{s!r}: {tl[1]}", case={"tier": tier, "lo": i, "hi": i + 1})
            continue
        for j in range(n):
            s2, ar2, lab2, okey2, tl2 = rows[j]
            if tl2 and isinstance(tl2[0], str):
                continue
            if ar != ar2 and ((ar < ar2 and lab) or (ar2 < ar and lab2)):
                continue   # outside the domain (O1)
            m = max(len(tl), len(tl2))
            if sign(pad(tl, m), pad(tl2, m)) != sign(okey, okey2):
                agg.viol("C20:precedence-mismatch", f"{s!r} -> {list(tl)} vs {s2!r} -> {list(tl2)}: list order "
                         f"{sign(pad(tl, m), pad(tl2, m))}, semantic-version precedence {sign(okey, okey2)}",
                         case={"tier": tier, "lo": i, "hi": i + 1})
                break
            ok += 1
    agg.evaluations += ok
    agg.outcomes["ok:pair"] += ok
    agg.notes["__disjoint_distinct__"] += ok   # pairs (i, j) are distinct by construction, chunks partition i
    if lo == 0:
        agg.samples.append({"string": rows[1][0], "list": list(rows[1][4]), "pairs_from_this_string": n})
        agg.samples.append({"string": rows[-1][0], "list": list(rows[-1][4])})


def pair_cases(tier):
    n = len(all_strings(tier))
    step = max(1, n // 256)
    return [{"tier": tier, "lo": i, "hi": min(n, i + step)} for i in range(0, n, step)]


def run_bad(case, agg):
    V = _conv()
    s = case["s"]
    try:
        r = V.from_obj(s).to_obj()
    except ValueError:
        agg.rej(h8("bad", s), "rejected:ValueError", nontrivial=True, sample={"string": s})
        return
    except Exception as e:
        agg.viol(f"C20:unsupported-label/{type(e).__name__}", f"{s!r}: {type(e).__name__}: {e}")
        return
    agg.viol("C20:unsupported-label-accepted", f"{s!r} -> {r}")


def bad_cases(tier):
    out = []
    for rel in ("1", "1.2", "1.2.3"):
        for l in BAD_LABELS:
            out.append({"s": f"{rel}-{l}"})
            out.append({"s": f"{rel}-{l}.1"})
    return out


# -- build glue --------------------------------------------------------------------------------------
FIELD = [0, 1, 2, 127, 254, 255]
EXTRA = [None, "", "alpha", "beta.2", "rc.10", "rc1", "dev", "-x"]
EXTRA_EXPECT = {None: (), "": (), "alpha": (-3,), "beta.2": (-2, 2), "rc.10": (-1, 10)}


def glue_cases(tier):
    out = []
    for i, (M, m, p) in enumerate(itertools.product(FIELD, repeat=3)):
        out.append({"M": M, "m": m, "p": p, "i": i})
    return out


def _version_dict(M, m, p, t, extra):
    d = {"VERSION_MAJOR": str(M), "VERSION_MINOR": str(m), "PATCHLEVEL": str(p)}
    if t is not None:
        d["VERSION_TWEAK"] = str(t)
    if extra is not None:
        d["EXTRAVERSION"] = extra
    # the system-controller firmware version of the same file follows the same rules (other field values, to tell them apart)
    d.update({"SYSCTRL_VERSION_MAJOR": str(p), "SYSCTRL_VERSION_MINOR": str(M), "SYSCTRL_VERSION_PATCH": str(m)})
    if t is not None:
        d["SYSCTRL_VERSION_TWEAK"] = str(255 - t)
    if extra is not None:
        d["SYSCTRL_VERSION_EXTRA"] = extra
    return d


def run_glue(case, agg):
    from ncs import build
    V = _conv()
    M, m, p = case["M"], case["m"], case["p"]
    with fresh_dir("c20") as d:
        for t in [None] + FIELD:
            for ei, extra in enumerate(EXTRA):
                key = h8("glue", M, m, p, t, extra)
                vd = _version_dict(M, m, p, t, extra)
                try:
                    if seed_slice(case["i"] * 64 + ei, 11):
                        f = os.path.join(d, "VERSION")
                        with open(f, "w") as fh:
                            fh.write("".join(f"{k} = {v}\n" for k, v in vd.items()))
                        res = dict(build.read_version_file(f))
                        path = "file"
                    else:
                        cfg = {"VERSION": dict(vd)}
                        build.append_default_version_values(cfg)
                        res = cfg["VERSION"]
                        path = "dict"
                    seq = int(res["DEFAULT_SEQ_NUM"])
                    ver = res["DEFAULT_VERSION"]
                except Exception as e:
                    agg.viol(f"C20:glue/crash/{type(e).__name__}", f"{vd}: {e}")
                    continue
                want_seq = (M << 24) + (m << 16) + (p << 8) + (t or 0)
                if seq != want_seq:
                    agg.viol("C20:glue/sequence-number", f"{vd}: DEFAULT_SEQ_NUM {seq}, order-preserving value {want_seq}")
                    continue
                try:
                    lst = V.from_obj(ver).to_obj()
                    V.from_obj(ver).to_cbor()
                except Exception as e:
                    agg.viol("C20:glue/version-not-accepted", f"{vd}: DEFAULT_VERSION {ver!r} rejected by the manifest encoder: {e}")
                    continue
                if tuple(lst[:3]) != (M, m, p):
                    agg.viol("C20:glue/version-release-part", f"{vd}: DEFAULT_VERSION {ver!r} -> {lst}")
                    continue
                if extra in EXTRA_EXPECT and tuple(lst[3:]) != EXTRA_EXPECT[extra]:
                    agg.viol("C20:glue/version-prerelease-part", f"{vd}: DEFAULT_VERSION {ver!r} -> {lst}, expected suffix {EXTRA_EXPECT[extra]}")
                    continue
                if extra not in EXTRA_EXPECT and not (len(lst) > 3 and lst[3] < 0):
                    agg.viol("C20:glue/unsupported-extraversion-not-prerelease", f"{vd}: DEFAULT_VERSION {ver!r} -> {lst}")
                    continue
                try:
                    sseq, sver = int(res["SCFW_SEQ_NUM"]), res["SCFW_VERSION"]
                    slst = V.from_obj(sver).to_obj()
                except Exception as e:
                    agg.viol("C20:glue/scfw-version-not-accepted", f"{vd}: {type(e).__name__}: {e}")
                    continue
                if sseq != (p << 24) + (M << 16) + (m << 8) + ((255 - t) if t is not None else 0):
                    agg.viol("C20:glue/scfw-sequence-number", f"{vd}: SCFW_SEQ_NUM {sseq}")
                    continue
                if tuple(slst[:3]) != (p, M, m) or (extra in EXTRA_EXPECT and tuple(slst[3:]) != EXTRA_EXPECT[extra]):
                    agg.viol("C20:glue/scfw-version", f"{vd}: SCFW_VERSION {sver!r} -> {slst}")
                    continue
                agg.ok(key, f"ok:{path}", sample={"VERSION": vd, "seq": seq, "version": ver, "list": lst} if (t == 1 and ei == 3) else None)


UNQUOTED = ["2", "10", "1.5", "1.9", "1.10", "1.20", "2.50", "2.5", "1.0", "0.1", "1.2.3", "1.10.0", "3.0-rc.1", "007", "1_0", "0x10", "1e1", ".5"]


def run_unquoted(case, agg):
    """the version text written WITHOUT quotes in a YAML / JSON description (where 1.10 is a number to the loader): the
    description is refused, or the encoded list is the one the text denotes - never a silently different version"""
    from .. import impl, refcbor
    from suit_generator import cmd_create
    text, fmt = case["text"], case["fmt"]
    is_supported = re.fullmatch(r"[0-9]+(\.[0-9]+)*(-(alpha|beta|rc)(\.[0-9]+)?)?", text) is not None
    with fresh_dir("c20y") as d:
        inp, out = os.path.join(d, "in." + fmt), os.path.join(d, "o.suit")
        if fmt == "yaml":
            body = ("SUIT_Envelope_Tagged:\n  suit-authentication-wrapper:\n    SuitDigest:\n      suit-digest-algorithm-id: cose-alg-sha-256\n"
                    "  suit-manifest:\n    suit-manifest-version: 1\n    suit-manifest-sequence-number: 1\n    suit-common: {}\n"
                    f"    suit-current-version: {text}\n")
        else:
            body = ('{"SUIT_Envelope_Tagged": {"suit-authentication-wrapper": {"SuitDigest": {"suit-digest-algorithm-id": "cose-alg-sha-256"}}, '
                    '"suit-manifest": {"suit-manifest-version": 1, "suit-manifest-sequence-number": 1, "suit-common": {}, '
                    f'"suit-current-version": {text}}}}}}}')
        open(inp, "w").write(body)
        try:
            cmd_create.main(input_file=inp, output_file=out, input_format="AUTO")
            data = open(out, "rb").read()
        except Exception as e:
            agg.rej(h8("c20y", case), f"refused:{fmt}", nontrivial=True)
            return
    env, raw = impl.envelope_members(data)
    man = refcbor.decode(env.get(3).value)
    item = man.get(6)
    got = refcbor.to_py(refcbor.decode(item.value) if item.kind == "bstr" else item)
    if not is_supported:
        agg.viol("C20:unquoted/unsupported-accepted", f"{fmt}: `suit-current-version: {text}` (not a supported version text) was accepted and encoded as {got}")
        return
    head, _, pre = text.partition("-")
    want = [int(x) for x in head.split(".")]
    if pre:
        lab, _, num = pre.partition(".")
        want += [{"alpha": -3, "beta": -2, "rc": -1}[lab]] + ([int(num)] if num else [])
    if list(got) != want:
        agg.viol("C20:unquoted/other-version-encoded", f"{fmt}: `suit-current-version: {text}` written without quotes was accepted and encoded as {list(got)}; the text denotes {want}")
    else:
        agg.ok(h8("c20y", case), f"ok:{fmt}", sample=case if text == "1.2.3" else None)


def override_cases(tier):
    return [{"M": M, "m": m, "p": p, "t": t, "arv": arv, "ars": ars, "other": other, "via": via}
            for (M, m, p) in ((0, 0, 1), (1, 2, 3), (2, 255, 0), (255, 0, 255)) for t in (None, 0, 7)
            for arv in (None, "9.8.7-rc.2", "4.5") for ars in (None, "4242", "0") for other in (False, True) for via in ("dict", "file")]


def run_override(case, agg):
    """VERSION files that also carry the override keys: an explicit APP_ROOT_SEQ_NUM is used as given; WITHOUT one the
    sequence number still follows (major, minor, patch, tweak) - whatever other keys (APP_ROOT_VERSION, versions of other
    manifests) the file has; DEFAULT_VERSION is the override if there is one"""
    from ncs import build
    V = _conv()
    M, m, p, t = case["M"], case["m"], case["p"], case["t"]
    vd = _version_dict(M, m, p, t, None)
    if case["arv"] is not None:
        vd["APP_ROOT_VERSION"] = case["arv"]
    if case["ars"] is not None:
        vd["APP_ROOT_SEQ_NUM"] = case["ars"]
    if case["other"]:
        vd.update({"APP_LOCAL_1_VERSION": "7.7.7", "APP_LOCAL_1_SEQ_NUM": "77", "NORDIC_TOP_VERSION": "3.3.3", "RAD_LOCAL_1_SEQ_NUM": "5"})
    try:
        if case["via"] == "file":
            with fresh_dir("c20o") as d:
                f = os.path.join(d, "VERSION")
                with open(f, "w") as fh:
                    fh.write("".join(f"{k} = {v}\n" for k, v in vd.items()))
                res = dict(build.read_version_file(f))
        else:
            cfg = {"VERSION": dict(vd)}
            build.append_default_version_values(cfg)
            res = cfg["VERSION"]
        seq, ver = int(res["DEFAULT_SEQ_NUM"]), res["DEFAULT_VERSION"]
        lst = V.from_obj(ver).to_obj()
    except Exception as e:
        agg.viol(f"C20:glue/override/failed/{type(e).__name__}", f"{vd}: {type(e).__name__}: {e}")
        return
    want_seq = int(case["ars"]) if case["ars"] is not None else (M << 24) + (m << 16) + (p << 8) + (t or 0)
    want_ver = case["arv"] if case["arv"] is not None else f"{M}.{m}.{p}"
    if seq != want_seq:
        agg.viol("C20:glue/override/sequence-number", f"{vd}: DEFAULT_SEQ_NUM {seq}, expected {want_seq} "
                 f"({'the explicit APP_ROOT_SEQ_NUM' if case['ars'] is not None else 'the order-preserving value of the version fields'})")
    elif ver != want_ver or lst != V.from_obj(want_ver).to_obj():
        agg.viol("C20:glue/override/version", f"{vd}: DEFAULT_VERSION {ver!r} -> {lst}, expected {want_ver!r}")
    else:
        agg.ok(h8("c20o", case), f"ok:{case['via']}", sample=case if case["arv"] and not case["ars"] and case["t"] == 7 and case["via"] == "file" and case["other"] else None)


def run_seq_order(case, agg):
    """All ordered pairs of (major, minor, patch, tweak) tuples: tuple order <=> sequence-number order, strictly."""
    from ncs import build
    tuples = list(itertools.product(FIELD, repeat=4))
    seqs = []
    for (M, m, p, t) in tuples:
        cfg = {"VERSION": _version_dict(M, m, p, t, None)}
        build.append_default_version_values(cfg)
        seqs.append(int(cfg["VERSION"]["DEFAULT_SEQ_NUM"]))
    n = len(tuples)
    ok = 0
    for i in range(case["lo"], case["hi"]):
        for j in range(n):
            if sign(tuples[i], tuples[j]) != sign(seqs[i], seqs[j]):
                agg.viol("C20:glue/sequence-order", f"{tuples[i]} -> {seqs[i]} vs {tuples[j]} -> {seqs[j]}")
                break
            ok += 1
    agg.evaluations += ok
    agg.outcomes["ok:seq-pair"] += ok
    agg.notes["__disjoint_distinct__"] += ok
    if case["lo"] == 0:
        agg.samples.append({"tuple": tuples[7], "seq": seqs[7]})

# -- complete field range, one field at a time -----------------------------------------------------------
def sweep_cases(tier):
    others = [0] if tier == "quick" else [0, 7, 255]
    return [{"ar": ar, "pos": pos, "o": o} for ar in (1, 2, 3, 4) for pos in range(ar) for o in others if not (ar == 1 and o != others[0])]


def run_sweep(case, agg):
    """EVERY value 0..300 of one numeric field (the others fixed) x every pre-release form, one arity: the converted lists,
    sorted by semantic-version precedence, must be strictly increasing exactly where the precedence is (both relations are
    total preorders on strings of one arity, so consistency of neighbours in the sorted order is consistency of all pairs)"""
    V = _conv()
    ar, pos, o = case["ar"], case["pos"], case["o"]
    rows = []
    for v in range(0, 301):
        rel = [o] * ar
        rel[pos] = v
        for pre in PRE_FORMS + [(l, n) for l in LABELS for n in (2, 9, 255, 256, 300)]:
            s = ".".join(map(str, rel))
            if pre:
                s += "-" + pre[0] + ("" if pre[1] is None else f".{pre[1]}")
            okey = tuple(rel) + ((0, 0) if pre is None else (RANK[pre[0]], pre[1] or 0))
            try:
                lst = V.from_obj(s).to_obj()
                V.from_obj(s).to_cbor()
            except Exception as e:
                agg.viol("C20:convert/rejected-supported-string", f"{s!r}: {type(e).__name__}: {e}")
                return
            if not (isinstance(lst, list) and all(isinstance(x, int) and not isinstance(x, bool) for x in lst)):
                agg.viol("C20:convert/non-integer-list", f"{s!r}: {lst!r}")
                return
            rows.append((okey, s, tuple(lst)))
    rows.sort(key=lambda r: r[0])
    m = max(len(r[2]) for r in rows)
    for a, b in zip(rows, rows[1:]):
        if sign(a[0], b[0]) != sign(pad(a[2], m), pad(b[2], m)):
            agg.viol("C20:precedence-mismatch", f"{a[1]!r} -> {list(a[2])} vs {b[1]!r} -> {list(b[2])}: list order "
                     f"{sign(pad(a[2], m), pad(b[2], m))}, semantic-version precedence {sign(a[0], b[0])}")
            return
    for okey, s, lst in rows:
        agg.ok(h8("c20s", s), "ok:sweep", sample={"string": s, "list": list(lst)} if s in ("300-rc.300", "7.7.123.7-beta") else None)


def run_glue_sweep(case, agg):
    """every value 0..255 of one VERSION field (0..300 for the major), the others fixed: the sequence number is the
    order-preserving value and strictly increasing along the sweep; the version text is accepted and names the fields"""
    from ncs import build
    V = _conv()
    pos, o, via = case["pos"], case["o"], case["via"]
    prev = None
    with fresh_dir("c20g") as d:
        for v in range(0, 301 if pos == 0 else 256):
            f4 = [o, o, o, o]
            f4[pos] = v
            M, m, p, t = f4
            vd = _version_dict(M, m, p, t, None)
            try:
                if via == "file":
                    f = os.path.join(d, "VERSION")
                    with open(f, "w") as fh:
                        fh.write("".join(f"{k} = {x}\n" for k, x in vd.items()))
                    res = dict(build.read_version_file(f))
                else:
                    cfg = {"VERSION": dict(vd)}
                    build.append_default_version_values(cfg)
                    res = cfg["VERSION"]
                seq, ver = int(res["DEFAULT_SEQ_NUM"]), res["DEFAULT_VERSION"]
                lst = V.from_obj(ver).to_obj()
            except Exception as e:
                agg.viol(f"C20:glue/crash/{type(e).__name__}", f"{vd}: {e}")
                return
            if seq != (M << 24) + (m << 16) + (p << 8) + t or (prev is not None and not seq > prev):
                agg.viol("C20:glue/sequence-number", f"{vd}: DEFAULT_SEQ_NUM {seq} (previous value of the sweep: {prev}), order-preserving value {(M << 24) + (m << 16) + (p << 8) + t}")
                return
            if tuple(lst[:3]) != (M, m, p):
                agg.viol("C20:glue/version-release-part", f"{vd}: DEFAULT_VERSION {ver!r} -> {lst}")
                return
            prev = seq
            agg.ok(h8("c20g", case, v), f"ok:{via}")


RULE += ". Further stages: " + 'field-sweep - every value 0..300 of one field (arity 1..4, 28 pre-release forms), neighbours in precedence order; glue-field-sweep - every value of one VERSION field (major 0..300, others 0..255)'


def plan(tier):
    n4 = len(FIELD) ** 4
    return [
        CaseStage("version-pairs", lambda: pair_cases(tier), run_pairs, chunk=1, rule="all pairs of converted strings"),
        CaseStage("unsupported-labels", lambda: bad_cases(tier), run_bad, rule="unsupported labels at -label and -label.N"),
        CaseStage("build-glue", lambda: glue_cases(tier), run_glue, disjoint=True,
                  rule="(major,minor,patch) x tweak{absent,6 values} x 8 EXTRAVERSION forms"),
        CaseStage("unquoted-scalars", [{"text": t, "fmt": f} for t in UNQUOTED for f in ("yaml", "json") if not (f == "json" and not re.fullmatch(r"-?(0|[1-9][0-9]*)(\.[0-9]+)?([eE][+-]?[0-9]+)?", t))],
                  run_unquoted, rule="18 version texts written without quotes in YAML / as numbers in JSON, through cmd_create.main"),
        CaseStage("override-keys", lambda: override_cases(tier), run_override,
                  rule="4 versions x tweak x APP_ROOT_VERSION {absent, 2 values} x APP_ROOT_SEQ_NUM {absent, 2 values} x other manifests' keys x dict/file"),
        CaseStage("field-sweep", lambda: sweep_cases(tier), run_sweep, chunk=1,
                  rule="arity 1..4 x position x every field value 0..300 x 28 pre-release forms (others fixed); neighbours in precedence order"),
        CaseStage("glue-field-sweep", [{"pos": pos, "o": o, "via": via} for pos in range(4) for o in ((0, 1) if tier == "quick" else (0, 1, 128, 255)) for via in ("dict", "file")],
                  run_glue_sweep, chunk=1, rule="every value of one VERSION field (major 0..300, others 0..255), others fixed; dict and file"),
        CaseStage("sequence-order", [{"lo": i, "hi": min(n4, i + 81)} for i in range(0, n4, 81)], run_seq_order, chunk=1,
                  rule="all ordered pairs of (major,minor,patch,tweak) tuples"),
    ]
