"""C05 - digests, sizes and payloads taken from files describe those exact files."""
from __future__ import annotations

import copy
import itertools
import os

from .. import gen, impl, refcbor, registry
from ..core import CaseStage, fresh_dir, h8, seed_slice

LEVEL = "exploration"
RULE = ("full product reference form {file, file_direct, envelope by path, envelope inline, raw} x field {image digest, "
        "image size, integrated payload, integrated dependency} x 5 digest algorithms x file lengths {0,1,23,24,255,256,"
        "65535,65536} x file names (incl. hex look-alikes) x {absolute, relative to cwd}; dependency hierarchies of "
        "depth 3 with every level given inline or by path and different algorithms per level. The harness writes the "
        "files, so the oracle knows the bytes: parameter 3 / 14 and the string-keyed members are located in the "
        "output with the verifier's CBOR reader and compared with hashlib / len / the bytes. distinct = distinct "
        "(form, field, alg, length, name, path kind) tuples; non-trivial = create produced an envelope and the "
        "referenced value was located and compared")
ASSUMPTIONS = ["hashlib", "svmc/refcbor.py",
               "language rule: a payload string consisting only of hex digits is a hex literal, anything else a path"]
BOUNDS = {"quick": "full product with all 8 lengths; hierarchies depth 3, 2^3 inline/path patterns x 5 algorithms",
          "thorough": "full product with all 8 lengths; hierarchies x all 25 (parent, child) algorithm pairs"}

LENS_Q = [0, 1, 24, 256, 65536]
LENS_T = [0, 1, 23, 24, 255, 256, 65535, 65536]
NAMES = ["fw.bin", "deadbeef.bin", "cafe/f00d", "./abcdef", "a b.bin", "zażółć_€.bin", "0x0e0aa000", "0X0E0AA000", "fw[1]*?.bin", "-{fw}#.v2.bin", "app_$SVMC_BOARD.bin", "dep_${SVMC_BOARD}_~user.suit"]
ENV_DECOYS = {"app_$SVMC_BOARD.bin": "app_nrf54.bin", "dep_${SVMC_BOARD}_~user.suit": "dep_nrf54_~user.suit"}


def content(n, salt=0):
    return bytes(((i * 11 + (i >> 8) * 3 + salt * 7 + 5) % 256) for i in range(n))


def rich_child(seq, alg):
    """a child with a severed member whose (wrong) supplied digest must be refreshed before the child is hashed."""
    # two payloads NOT in sorted order, listed before the severed member (member order is the description's)
    c = gen.child_env(seq=seq, alg=alg, extra={"suit-integrated-payloads": {"#radio.bin": "0102", "#app.bin": "030405"},
                                               "suit-payload-fetch": [{"suit-directive-fetch": [gen.BITS[1]]}]})
    c["SUIT_Envelope_Tagged"]["suit-manifest"]["suit-payload-fetch"] = gen.digest("cose-alg-sha-512", "00" * 64)
    c["SUIT_Envelope_Tagged"]["suit-authentication-wrapper"]["SuitDigest"]["suit-digest-bytes"] = "11" * 8
    return c


def noncanon(envelope: bytes, how: str) -> bytes:
    """the same envelope as another legal CBOR encoder writes it: indefinite-length top-level map / two-byte map head"""
    assert envelope[:2] == b"\xd8\x6b" and 0xA0 <= envelope[2] <= 0xB7, envelope[:3].hex()
    if how == "indef":
        return envelope[:2] + b"\xbf" + envelope[3:] + b"\xff"
    return envelope[:2] + b"\xb8" + bytes([envelope[2] - 0xA0]) + envelope[3:]


def find_params(data):
    """-> dict of parameters (code -> Item, with the byte string they live in) of the first override-parameters in suit-install."""
    env, raw = impl.envelope_members(data)
    man = refcbor.decode(env.get(3).value)
    inst = refcbor.decode(man.get(20).value)
    for i in range(0, len(inst.items), 2):
        if inst.items[i].value == 20:
            return inst.items[i + 1], env
    raise KeyError("no override-parameters in suit-install")


def file_cases(tier):
    lens = LENS_T
    out = []
    i = 0
    for field, forms in (("digest", ["file", "file_direct", "envelope-path", "envelope-inline", "raw", "envelope-path+indef", "envelope-path+longhead"]),
                         ("size", ["file", "file_direct", "file_direct-nl", "envelope-path", "envelope-inline", "raw", "envelope-path+indef", "envelope-path+longhead"]),
                         ("payload", ["path", "inline-envelope", "hex-lookalike"]),
                         ("dependency", ["path", "inline-envelope", "path+indef", "path+longhead"])):
        for form in forms:
            for alg in (gen.ALG5 if field == "digest" else gen.ALG5[:1]):
                for L in (lens if "envelope" not in form and form != "raw" and "+" not in form else [0]):
                    for ni, name in enumerate(NAMES if form in ("file", "file_direct", "file_direct-nl", "path", "envelope-path") else [NAMES[0]]):
                        for rel in (False, True):
                            out.append({"field": field, "form": form, "alg": alg, "L": L, "name": ni, "rel": rel, "i": i})
                            i += 1
                            if ni == 0 and form in ("file", "file_direct", "file_direct-nl", "path", "envelope-path"):
                                for link in ("abs", "rel"):
                                    out.append({"field": field, "form": form, "alg": alg, "L": L, "name": ni, "rel": rel, "link": link, "i": i})
                                    i += 1
    return out


def run_file(case, agg):
    field, form, alg, L, rel = case["field"], case["form"], case["alg"], case["L"], case["rel"]
    form, _, recode = form.partition("+")       # +indef / +longhead: the referenced envelope file was written by another CBOR encoder
    name = NAMES[case["name"]]
    key = h8("c05", {k: case.get(k) for k in ("field", "form", "alg", "L", "name", "rel", "link")})
    algc = registry.HASH_ALGS[alg]
    with fresh_dir("c05") as root:
        root = os.path.realpath(root)
        path_abs = os.path.join(root, name)
        os.makedirs(os.path.dirname(os.path.normpath(path_abs)), exist_ok=True)
        ref = name if rel else os.path.normpath(path_abs)
        data = content(L, case["name"])
        if name in ENV_DECOYS:
            # the environment defines the variable the file name seems to mention, and a file of the expanded name exists
            # (with other content and length): the description names the file literally
            os.environ["SVMC_BOARD"] = "nrf54"
            open(os.path.join(root, ENV_DECOYS[name]), "wb").write(b"the file of the EXPANDED name " * 7)

        def put(path, blob):
            """the referenced file; for link cases the name given in the description is a symbolic link to it (an
            image published as app.bin -> images/app_v1.2.3.bin): the artifact is what open() reads"""
            if isinstance(blob, str):
                blob = blob.encode()
            if case.get("link"):
                tgt_dir = os.path.join(root, "images with a rather long directory name")
                os.makedirs(tgt_dir, exist_ok=True)
                tgt = os.path.join(tgt_dir, "real_artifact_v1.2.3+build.4567.bin")
                open(tgt, "wb").write(blob)
                os.symlink(tgt if case["link"] == "abs" else os.path.relpath(tgt, os.path.dirname(os.path.normpath(path))), path)
            else:
                open(path, "wb").write(blob)
        child = rich_child(3, "cose-alg-sha-384")
        old = os.getcwd()
        os.chdir(root)
        try:
            # the dependency "created on its own" - through the command (file writer) on a rotating slice, else the library
            child_bytes = impl.tool_create_main(copy.deepcopy(child), root, "json") if case["i"] % 3 == 0 else impl.tool_create(child)
            if recode:
                child_bytes = noncanon(child_bytes, recode)
            want = None
            params = {}
            envx = {}
            if field == "digest":
                if form == "file":
                    put(path_abs, data)
                    params["suit-parameter-image-digest"] = gen.digest(alg, {"file": ref})
                    want = registry.digest(algc, data)
                elif form == "file_direct":
                    dg = registry.digest(algc, data)
                    put(path_abs, dg)
                    params["suit-parameter-image-digest"] = gen.digest(alg, {"file_direct": ref})
                    want = dg
                elif form == "envelope-path":
                    put(path_abs, child_bytes)
                    params["suit-parameter-image-digest"] = gen.digest(alg, {"envelope": ref})
                    want = registry.digest(algc, _man_item(child_bytes))
                elif form == "envelope-inline":
                    params["suit-parameter-image-digest"] = gen.digest(alg, {"envelope": copy.deepcopy(child)})
                    want = registry.digest(algc, _man_item(child_bytes))
                else:
                    params["suit-parameter-image-digest"] = gen.digest(alg, {"raw": "0a" * 20})
                    want = b"\x0a" * 20
            elif field == "size":
                if form == "file":
                    put(path_abs, data)
                    params["suit-parameter-image-size"] = {"file": ref}
                    want = L
                elif form.startswith("file_direct"):
                    put(path_abs, str(L) + ("\n" if form.endswith("nl") else ""))
                    params["suit-parameter-image-size"] = {"file_direct": ref}
                    want = L
                elif form == "envelope-path":
                    put(path_abs, child_bytes)
                    params["suit-parameter-image-size"] = {"envelope": ref}
                    want = len(child_bytes)
                elif form == "envelope-inline":
                    params["suit-parameter-image-size"] = {"envelope": copy.deepcopy(child)}
                    want = len(child_bytes)
                else:
                    params["suit-parameter-image-size"] = {"raw": 12345}
                    want = 12345
            else:
                member = "suit-integrated-payloads" if field == "payload" else "suit-integrated-dependencies"
                if form == "path":
                    blob = data if field == "payload" else child_bytes
                    put(path_abs, blob)
                    envx[member] = {"#x": ref}
                    want = blob
                elif form == "inline-envelope":
                    envx[member] = {"#x": copy.deepcopy(child)}
                    want = child_bytes
                else:
                    # a bare all-hex relative name is a hex literal by definition, even when such a file exists
                    open(os.path.join(root, "abcdef"), "wb").write(b"file content, not the literal")
                    envx[member] = {"#x": "abcdef"}
                    want = bytes.fromhex("abcdef")
            desc = gen.minimal(man={"suit-install": [{"suit-directive-override-parameters": {"suit-parameter-uri": "#x", **params}}]}, env=envx)
            label = f"{field} via {form}{' (file re-encoded: ' + recode + ')' if recode else ''}, alg {alg}, file {name!r} ({'relative' if rel else 'absolute'}{', a symbolic link (' + case['link'] + ')' if case.get('link') else ''}), length {L}"
            try:
                if seed_slice(case["i"], 23):
                    out = impl.tool_create_main(desc, root, "yaml" if case["i"] % 2 else "json")
                    via = "main"
                else:
                    out = impl.tool_create(desc)
                    via = "lib"
            except Exception as e:
                agg.viol(f"C05:create-failed/{field}/{form.split('-nl')[0]}/{type(e).__name__}", f"{label}: {type(e).__name__}: {str(e)[:300]}")
                return
        finally:
            os.chdir(old)
            os.environ.pop("SVMC_BOARD", None)
    try:
        pm, env = find_params(out)
        if field == "digest":
            it = pm.get(3)
            dg = refcbor.decode(it.value)
            got = (dg.items[0].value, dg.items[1].value)
            exp = (algc, want)
        elif field == "size":
            it = pm.get(14)
            got, exp = (it.kind, it.value), ("uint", want)
        else:
            it = env.get("#x")
            got, exp = (it.kind, it.value), ("bstr", want)
    except Exception as e:
        agg.viol(f"C05:output-structure/{field}", f"{label}: cannot locate the value in the output: {type(e).__name__}: {e}")
        return
    if got != exp:
        def sh(v):
            return tuple((x[:24].hex() + f"({len(x)})") if isinstance(x, bytes) else x for x in v)
        agg.viol(f"C05:{field}/{form.split('-nl')[0]}", f"{label}: output carries {sh(got)}, the referenced artifact gives {sh(exp)}")
        return
    agg.ok(key, f"ok:{via}:{field}", sample={"field": field, "form": form, "alg": alg, "name": name, "relative": rel, "length": L}
           if (L in (24, 0) and case["name"] == 1 and rel) else None)


def _man_item(envelope):
    env, raw = impl.envelope_members(envelope)
    return raw[3]


# -- hierarchies -------------------------------------------------------------------------------------

def hier_cases(tier):
    out = []
    algs = gen.ALG5
    pairs = list(itertools.product(range(5), repeat=2)) if tier == "thorough" else [(i, (i + 1) % 5) for i in range(5)] + [(0, 0)]
    for pa, ca in pairs:
        for pattern in itertools.product(("inline", "path"), repeat=3):   # (grandchild in child, child in root, digest refs)
            out.append({"palg": pa, "calg": ca, "pattern": list(pattern)})
    return out


def run_hier(case, agg):
    palg, calg = gen.ALG5[case["palg"]], gen.ALG5[case["calg"]]
    galg = gen.ALG5[(case["calg"] + 2) % 5]
    g_form, c_form, d_form = case["pattern"]
    key = h8("c05h", case)
    label = f"hierarchy root({palg}) -> child({calg}, {c_form}) -> grandchild({galg}, {g_form}), digest refs {d_form}"
    with fresh_dir("c05h") as root:
        try:
            grand = rich_child(30, galg)
            grand_bytes = impl.tool_create_main(copy.deepcopy(grand), root, "yaml")     # created on its own by the command
            gpath = os.path.join(root, "grand.suit")
            open(gpath, "wb").write(grand_bytes)
            gref = copy.deepcopy(grand) if d_form == "inline" else gpath
            child = gen.child_env(seq=20, alg=calg)
            child["SUIT_Envelope_Tagged"]["suit-manifest"]["suit-install"] = [{"suit-directive-override-parameters": {
                "suit-parameter-uri": "#grand", "suit-parameter-image-digest": gen.digest(palg, {"envelope": gref})}}]
            child["SUIT_Envelope_Tagged"]["suit-integrated-dependencies"] = {"#grand": copy.deepcopy(grand) if g_form == "inline" else gpath}
            child_bytes = impl.tool_create_main(copy.deepcopy(child), root, "json") if case["palg"] % 2 else impl.tool_create(child)
            cpath = os.path.join(root, "child.suit")
            open(cpath, "wb").write(child_bytes)
            cref = copy.deepcopy(child) if d_form == "inline" else cpath
            rootd = gen.minimal(alg=palg, man={"suit-install": [{"suit-directive-override-parameters": {
                "suit-parameter-uri": "#child", "suit-parameter-image-digest": gen.digest(palg, {"envelope": cref}),
                "suit-parameter-image-size": {"envelope": copy.deepcopy(child) if d_form == "inline" else cpath}}}]},
                env={"suit-integrated-dependencies": {"#child": copy.deepcopy(child) if c_form == "inline" else cpath}})
            out = impl.tool_create(rootd)
        except Exception as e:
            agg.viol(f"C05:hierarchy/create-failed/{type(e).__name__}", f"{label}: {type(e).__name__}: {str(e)[:300]}")
            return
    problems = []
    try:
        pm, env = find_params(out)
        emb = env.get("#child").value
        if emb != child_bytes:
            problems.append(("embedding", f"embedded child differs from the child created on its own ({len(emb)} vs {len(child_bytes)} bytes)"))
        dg = refcbor.decode(pm.get(3).value)
        want = registry.digest(registry.HASH_ALGS[palg], _man_item(emb))
        if (dg.items[0].value, dg.items[1].value) != (registry.HASH_ALGS[palg], want):
            problems.append(("dependency-digest", f"root records digest {dg.items[1].value.hex()[:24]} for #child; {palg} over the embedded child's wrapped manifest is {want.hex()[:24]}"))
        if pm.get(14).value != len(child_bytes):
            problems.append(("dependency-size", f"root records size {pm.get(14).value}, child is {len(child_bytes)} bytes"))
        # the child's own wrapper digests the same bytes (different algorithm): verify the child's wrapper too
        cenv, craw = impl.envelope_members(emb)
        cd = refcbor.decode(refcbor.decode(cenv.get(2).value).items[0].value)
        if cd.items[1].value != registry.digest(cd.items[0].value, craw[3]):
            problems.append(("child-wrapper", "embedded child's own wrapper digest does not match its manifest"))
        if palg == calg and cd.items[1].value != dg.items[1].value:
            problems.append(("dependency-digest", "parent and child use the same algorithm but record different digests of the child's manifest"))
        # level 2
        gemb = cenv.get("#grand").value
        if gemb != grand_bytes:
            problems.append(("embedding", "embedded grandchild differs from the grandchild created on its own"))
        cman = refcbor.decode(cenv.get(3).value)
        cinst = refcbor.decode(cman.get(20).value)
        gd = refcbor.decode(cinst.items[1].get(3).value)
        gw = registry.digest(registry.HASH_ALGS[palg], _man_item(gemb))
        if gd.items[1].value != gw:
            problems.append(("dependency-digest", "child records a wrong digest for the grandchild"))
    except Exception as e:
        agg.viol("C05:hierarchy/output-structure", f"{label}: {type(e).__name__}: {e}")
        return
    if problems:
        agg.viol(f"C05:hierarchy/{problems[0][0]}", f"{label}: " + "; ".join(p[1] for p in problems))
    else:
        agg.ok(key, "ok:hierarchy", sample={"hierarchy": label})


# -- the same description created twice in one process, referenced file changed in between -------------------

CHANGE_FORMS = ["digest-file", "size-file", "digest-file_direct", "payload-path", "dependency-path", "digest-envelope-path",
                "inline-dependency-payload-path", "inline-dependency-size-file", "inline-dependency-digest-file"]


def change_cases(tier):
    # same-length: other content of the SAME length, and the file keeps its modification time (a same-second rewrite,
    # cp -p / rsync -t, clamped reproducible-build times) - nothing but the bytes tells the two files apart
    return [{"form": f, "order": o} for f in CHANGE_FORMS for o in ("grow", "shrink", "same-length-same-mtime", "same-length")
            if not (o.startswith("same-length") and "size" in f)]


def run_change(case, agg):
    form = case["form"]
    a, b = (content(40, 1), content(300, 2)) if case["order"] == "grow" else (content(300, 2), content(40, 1))
    if case["order"].startswith("same-length"):
        a, b = content(300, 1), content(300, 2)
        if form == "digest-file_direct":
            a, b = a[:32], b[:32]
    key = h8("c05c", case)
    label = f"two creations in one process, {form}, referenced file changed in between ({case['order']})"
    with fresh_dir("c05c") as root:
        f = os.path.join(root, "app.bin")

        def make_desc():
            inner = {"suit-integrated-payloads": {"#app": f}} if form == "inline-dependency-payload-path" else {}
            child = gen.child_env(seq=5, extra=inner)
            if form == "inline-dependency-size-file":
                child["SUIT_Envelope_Tagged"]["suit-manifest"]["suit-validate"] = [{"suit-directive-override-parameters": {"suit-parameter-image-size": {"file": f}}}]
            if form == "inline-dependency-digest-file":
                child["SUIT_Envelope_Tagged"]["suit-manifest"]["suit-validate"] = [{"suit-directive-override-parameters": {
                    "suit-parameter-image-digest": gen.digest("cose-alg-sha-256", {"file": f})}}]
            params, env = {"suit-parameter-uri": "#x"}, {}
            if form == "digest-file":
                params["suit-parameter-image-digest"] = gen.digest("cose-alg-sha-256", {"file": f})
            elif form == "size-file":
                params["suit-parameter-image-size"] = {"file": f}
            elif form == "digest-file_direct":
                params["suit-parameter-image-digest"] = gen.digest("cose-alg-sha-256", {"file_direct": f})
            elif form == "payload-path":
                env["suit-integrated-payloads"] = {"#x": f}
            elif form == "dependency-path":
                env["suit-integrated-dependencies"] = {"#x": f}
            elif form == "digest-envelope-path":
                params["suit-parameter-image-digest"] = gen.digest("cose-alg-sha-256", {"envelope": f})
            else:
                env["suit-integrated-dependencies"] = {"#x": child}
                params["suit-parameter-image-size"] = {"envelope": copy.deepcopy(child)}
            return gen.minimal(man={"suit-install": [{"suit-directive-override-parameters": params}]}, env=env)

        def write(data):
            if form in ("dependency-path", "digest-envelope-path"):
                # the file is an envelope; vary its content through a payload
                data = impl.tool_create(gen.child_env(seq=6 + len(data) + (data[0] if data else 0), extra={"suit-integrated-payloads": {"#p": data.hex()}}))
            open(f, "wb").write(data)
        try:
            write(a)
            st = os.stat(f)
            first = impl.tool_create(make_desc())
            write(b)
            if case["order"] == "same-length-same-mtime":
                os.utime(f, ns=(st.st_atime_ns, st.st_mtime_ns))
                if os.stat(f).st_size != st.st_size:
                    raise RuntimeError("harness: the rewritten file has another length")
            second = impl.tool_create_main(make_desc(), root, "json")
            # reference for the second creation: a fresh interpreter that never saw the first content
            import subprocess, sys, json as _json
            dp = os.path.join(root, "ref.json")
            impl.dump_desc(make_desc(), dp, "json")
            env = dict(os.environ, PYTHONPATH=os.environ["SVMC_REPO"], PYTHONDONTWRITEBYTECODE="1")
            pr = subprocess.run([sys.executable, "-c", "import sys, logging; logging.disable(logging.CRITICAL); from suit_generator import cmd_create; "
                                 "cmd_create.main(input_file=sys.argv[1], input_format='AUTO', output_file=sys.argv[2])", dp, os.path.join(root, "ref.suit")],
                                env=env, capture_output=True, text=True, timeout=300)
            if pr.returncode != 0:
                raise RuntimeError(pr.stderr[-300:])
            ref = open(os.path.join(root, "ref.suit"), "rb").read()
        except Exception as e:
            agg.viol(f"C05:change/create-failed/{type(e).__name__}", f"{label}: {type(e).__name__}: {str(e)[:300]}")
            return
    if second != ref:
        d = impl.diff_path(second, ref) or ("?", "?")
        agg.viol(f"C05:stale-after-file-change/{form}", f"{label}: the second envelope does not describe the file as it is now (differs from a fresh process at {d[0]}: {d[1]})")
    elif first == second:
        raise RuntimeError(f"harness: changing the file had no effect on the envelope ({form})")
    else:
        agg.ok(key, "ok:follows-the-file", sample=case if case["order"] == "grow" and form == "inline-dependency-payload-path" else None)


# -- one reference mapping shared by several entries (YAML alias / merge key, a dict reused by a library caller) -----

def shared_cases(tier):
    return [{"form": f, "a1": a1, "a2": a2, "via": via} for f in ("file", "envelope-path", "envelope-inline", "file_direct")
            for a1, a2 in itertools.permutations(gen.ALG5, 2) for via in ("lib", "main-yaml")]


def run_shared(case, agg):
    """two digest entries with DIFFERENT algorithms point at ONE reference mapping object (in YAML: an anchor and its
    alias): each entry carries the hash of the artifact under its own algorithm"""
    form, a1, a2 = case["form"], case["a1"], case["a2"]
    c1, c2 = registry.HASH_ALGS[a1], registry.HASH_ALGS[a2]
    label = f"one shared {form} mapping under {a1} and {a2}, via {case['via']}"
    with fresh_dir("c05s") as root:
        data = content(300, 5)
        child = rich_child(4, "cose-alg-sha-256")
        child_bytes = impl.tool_create(child)
        fpath = os.path.join(root, "artifact.bin")
        if form == "file":
            open(fpath, "wb").write(data)
            shared = {"file": fpath}
            w1, w2 = registry.digest(c1, data), registry.digest(c2, data)
        elif form == "file_direct":
            open(fpath, "wb").write(b"\x5a" * 20)
            shared = {"file_direct": fpath}
            w1 = w2 = b"\x5a" * 20
        elif form == "envelope-path":
            open(fpath, "wb").write(child_bytes)
            shared = {"envelope": fpath}
            w1, w2 = registry.digest(c1, _man_item(child_bytes)), registry.digest(c2, _man_item(child_bytes))
        else:
            shared = {"envelope": child}
            w1, w2 = registry.digest(c1, _man_item(child_bytes)), registry.digest(c2, _man_item(child_bytes))
        d1 = {"suit-digest-algorithm-id": a1, "suit-digest-bytes": shared}
        d2 = {"suit-digest-algorithm-id": a2, "suit-digest-bytes": shared}       # the SAME object
        desc = gen.minimal(man={"suit-validate": [{"suit-directive-override-parameters": {"suit-parameter-image-digest": d1}}],
                                "suit-install": [{"suit-directive-override-parameters": {"suit-parameter-image-digest": d2}}]})
        try:
            if case["via"] == "lib":
                out = impl.tool_create(desc)          # deepcopy keeps the sharing
            else:
                out = impl.tool_create_main(desc, root, "yaml")      # safe_dump writes the shared mapping as &id001 / *id001
        except Exception as e:
            agg.viol(f"C05:shared-mapping/create-failed/{type(e).__name__}", f"{label}: {type(e).__name__}: {str(e)[:200]}")
            return
    try:
        env, raw = impl.envelope_members(out)
        man = refcbor.decode(env.get(3).value)
        got = []
        for code in (7, 20):
            seq = refcbor.decode(man.get(code).value)
            dg = refcbor.decode(seq.items[1].get(3).value)
            got.append((dg.items[0].value, dg.items[1].value))
    except Exception as e:
        agg.viol("C05:shared-mapping/output-structure", f"{label}: {type(e).__name__}: {e}")
        return
    if got != [(c1, w1), (c2, w2)]:
        agg.viol(f"C05:shared-mapping/{form}", f"{label}: digests {[(a, v[:8].hex(), len(v)) for a, v in got]}, the artifact gives "
                 f"{[(c1, w1[:8].hex(), len(w1)), (c2, w2[:8].hex(), len(w2))]}")
    else:
        agg.ok(h8("c05s", case), f"ok:{case['via']}", sample=case if a1 == gen.ALG5[0] and a2 == gen.ALG5[3] and form == "file" else None)


def plan(tier):
    return [
        CaseStage("file-references", lambda: file_cases(tier), run_file, disjoint=True, rule="form x field x alg x length x name x abs/rel"),
        CaseStage("shared-reference-mapping", lambda: shared_cases(tier), run_shared,
                  rule="4 reference forms x 20 ordered algorithm pairs x library (shared dict) / YAML (anchor + alias)"),
        CaseStage("hierarchies", lambda: hier_cases(tier), run_hier, rule="depth-3 hierarchies, inline/path per level, algorithm pairs"),
        CaseStage("file-changed-between-creations", lambda: change_cases(tier), run_change, rule="9 reference forms x {grow, shrink}: second creation in the same process vs a fresh process"),
    ]
