"""C07 - boot storage images place each installed envelope intact in its role's slot."""
from __future__ import annotations

import copy
import itertools
import os

from .. import gen, impl, refcbor, refhex, refuuid, keys as vkeys
from ..core import CaseStage, BfsStage, fresh_dir, h8, seed_slice, tuplify

LEVEL = "model_checking"
RULE = ("slot-allocation machine: state = sequence of envelopes handed to image boot, transition = one more envelope "
        "(11 roles, 3 rejects {unknown class, no component ID, one byte too large}, duplicate roles), explored "
        "breadth-first for both SoC layouts; in every state the real ImageCreator.create_files_for_boot (cmd main on a "
        "slice) is run and the three domain hex files are read back with the verifier's Intel-HEX reader and compared "
        "with a reference model (dict role -> stored bytes + the layout table copied from the property anchors): "
        "populated addresses are exactly the slots of that domain's roles, each slot decodes as {0:1, 1:offset, 2:envelope} "
        "+ 0xFF fill, envelope[offset:offset+16] is the class UUID, the stored envelope has exactly the non-severable integer members of the input (keys 2 and 3, and key 1 when the input has a delegation chain) with "
        "spans byte-identical to the input, rejects raise and leave the directory empty. Plus the full variant product per "
        "role {unsigned, signed} x {plain, all severable members + payloads + dependency} x component-ID position x size "
        "{small, exactly fits, one byte too large} and (thorough) all 2^11 role subsets x 4 base addresses.")
ASSUMPTIONS = ["svmc/refhex.py, svmc/refcbor.py, svmc/refuuid.py", "layout tables transcribed from cmd_image.py:319-505 (the property's anchors)",
               "component IDs of another shape than [INSTLD_MFST, uuid] are outside the property (nothing asserted)"]
BOUNDS = {"quick": "process histories depth 2 over 18 runs; sequences depth 2 over 15 letters x 2 SoCs x {defaults, build configuration, build configuration re-assigning default pairs}; 36 variants x 11 roles x 2 SoCs; full 11-role sets",
          "thorough": "process histories depth 3; sequences depth 3; all 2^11 subsets x 2 SoCs x 4 storage base addresses"}

ROLES = ["SEC_TOP", "SEC_SDFW", "SEC_SYSCTRL", "RAD_RECOVERY", "RAD_LOCAL_1", "RAD_LOCAL_2", "APP_ROOT", "APP_RECOVERY", "APP_LOCAL_1",
         "APP_LOCAL_2", "APP_LOCAL_3"]
LAYOUT = {
    "nrf54h20": {"SEC_TOP": (768, 1280, "secure"), "SEC_SDFW": (2048, 1024, "secure"), "SEC_SYSCTRL": (3072, 1024, "secure"),
                 "RAD_RECOVERY": (4096 + 1024, 1024, "radio"), "RAD_LOCAL_1": (4096 + 2048, 1024, "radio"), "RAD_LOCAL_2": (4096 + 3072, 1024, "radio"),
                 "APP_ROOT": (8192 + 1024, 2048, "application"), "APP_RECOVERY": (8192 + 3072, 2048, "application"),
                 "APP_LOCAL_1": (8192 + 5120, 1024, "application"), "APP_LOCAL_2": (8192 + 6144, 1024, "application"),
                 "APP_LOCAL_3": (8192 + 7168, 1024, "application")},
    "nrf9280": {"SEC_TOP": (4096, 1536, "secure"), "SEC_SDFW": (2048, 1024, "secure"), "SEC_SYSCTRL": (3072, 1024, "secure"),
                "RAD_RECOVERY": (8192 + 1024, 1024, "radio"), "RAD_LOCAL_1": (8192 + 2048, 1024, "radio"), "RAD_LOCAL_2": (8192 + 3072, 1024, "radio"),
                "APP_ROOT": (12288 + 1024, 2048, "application"), "APP_RECOVERY": (12288 + 3072, 2048, "application"),
                "APP_LOCAL_1": (12288 + 5120, 1024, "application"), "APP_LOCAL_2": (12288 + 6144, 1024, "application"),
                "APP_LOCAL_3": (12288 + 7168, 1024, "application")},
}
DEFAULT_CLASS = {
    "nrf54h20": {"APP_ROOT": "nRF54H20_sample_root", "APP_LOCAL_1": "nRF54H20_sample_app", "APP_RECOVERY": "nRF54H20_sample_app_recovery",
                 "RAD_LOCAL_1": "nRF54H20_sample_rad", "RAD_RECOVERY": "nRF54H20_sample_rad_recovery", "SEC_TOP": "nRF54H20_nordic_top",
                 "SEC_SDFW": "nRF54H20_sec", "SEC_SYSCTRL": "nRF54H20_sys"},
    "nrf9280": {"APP_ROOT": "nRF9280_sample_root", "APP_LOCAL_1": "nRF9280_sample_app", "APP_RECOVERY": "nRF9280_sample_app_recovery",
                "RAD_LOCAL_1": "nRF9280_sample_rad", "RAD_RECOVERY": "nRF9280_sample_rad_recovery", "SEC_TOP": "nRF9280_nordic_top",
                "SEC_SDFW": "nRF9280_sec", "SEC_SYSCTRL": "nRF9280_sys"},
}
DOMAINS = ["secure", "application", "radio"]
CFG_VENDOR = "SVMC-Devices.Example.com"      # mixed case: the name is hashed as written


def kconfig_name(role):
    return "ROOT" if role == "APP_ROOT" else role


def write_kconfig(path, roles=ROLES):
    with open(path, "w") as fh:
        fh.write("# generated\nCONFIG_UNRELATED=y\n")
        for r in roles:
            fh.write(f'SB_CONFIG_SUIT_MPI_{kconfig_name(r)}_VENDOR_NAME="{CFG_VENDOR}"\n')
            fh.write(f'SB_CONFIG_SUIT_MPI_{kconfig_name(r)}_CLASS_NAME="svmc_{r.lower()}"\n')
            fh.write(f'# SB_CONFIG_SUIT_MPI_{kconfig_name(r)}_CLASS_NAME="commented_out_{r.lower()}"\n')


SWAP = {"APP_LOCAL_1": "RAD_LOCAL_1", "RAD_LOCAL_1": "APP_LOCAL_1", "APP_ROOT": "APP_LOCAL_2", "APP_RECOVERY": "RAD_RECOVERY",
        "RAD_RECOVERY": "APP_RECOVERY", "SEC_TOP": "APP_LOCAL_3"}    # configured role -> role whose DEFAULT pair it is given


def names_for(role, soc, cfg):
    """-> (vendor, class) or None if the role cannot be addressed in this configuration mode."""
    if cfg == "kconfig":
        return CFG_VENDOR, f"svmc_{role.lower()}"
    if cfg == "swapped":
        # the build configuration gives this role the pair that is another role's default: the configuration wins
        inv = {v: k for k, v in SWAP.items()}
        src = inv.get(role)
        return ("nordicsemi.com", DEFAULT_CLASS[soc][src]) if src else None
    c = DEFAULT_CLASS[soc].get(role)
    return ("nordicsemi.com", c) if c else None


def static_layout_check():
    for soc, tbl in LAYOUT.items():
        spans = sorted((o, o + s, r) for r, (o, s, _) in tbl.items())
        for a, b in zip(spans, spans[1:]):
            if a[1] > b[0]:
                return f"{soc}: slots {a[2]} and {b[2]} overlap"
    return None


def role_desc(vendor, cls, rich=False, cid_pos="middle", filler=0, seq=1):
    cid = ["INSTLD_MFST", {"RFC4122_UUID": {"namespace": vendor, "name": cls}}]
    B = gen.BITS
    head = {"suit-manifest-version": 1, "suit-manifest-sequence-number": seq}
    body = {"suit-common": {"suit-components": [["M", 2, 235577344, 352256]],
                            "suit-shared-sequence": [{"suit-directive-override-parameters": {
                                "suit-parameter-vendor-identifier": {"RFC4122_UUID": vendor},
                                "suit-parameter-class-identifier": {"RFC4122_UUID": {"namespace": vendor, "name": cls}}}}]},
            "suit-reference-uri": "f" * filler,
            "suit-validate": [{"suit-condition-image-match": [B[0], B[1]]}]}
    env = {}
    if rich:
        # a manifest that also lists OTHER installed manifests (its dependencies) as components - before its own
        # component ID in the encoding: the class of the envelope is the one of suit-manifest-component-id
        other = "nRF54H20_sample_app" if cls != "nRF54H20_sample_app" else "nRF54H20_sample_root"
        body["suit-common"]["suit-components"] = [["INSTLD_MFST", {"RFC4122_UUID": {"namespace": "nordicsemi.com", "name": other}}],
                                                  ["M", 2, 235577344, 352256],
                                                  ["INSTLD_MFST", {"RFC4122_UUID": {"namespace": vendor, "name": cls + "_b"}}]]
        body["suit-payload-fetch"] = gen.digest("cose-alg-sha-256")
        body["suit-install"] = gen.digest("cose-alg-sha-384")
        body["suit-dependency-resolution"] = gen.digest("cose-alg-sha-512")
        body["suit-candidate-verification"] = gen.digest("cose-alg-shake128")
        body["suit-text"] = gen.digest("cose-alg-shake256")
        env = {"suit-payload-fetch": [{"suit-directive-fetch": [B[1]]}], "suit-install": [{"suit-directive-write": []}],
               "suit-dependency-resolution": [{"suit-directive-process-dependency": []}],
               "suit-candidate-verification": [{"suit-condition-dependency-integrity": []}],
               "suit-text": {"en": {"suit-text-manifest-description": "d" * 300}},
               "suit-integrated-payloads": {"#a": "00" * 700, "#b": "0102"},
               "suit-integrated-dependencies": {"#dep": gen.child_env(seq=9)}}
    if cid_pos == "first":
        man = {"suit-manifest-component-id": cid, **head, **body}
    elif cid_pos == "last":
        man = {**head, **body, "suit-manifest-component-id": cid}
    elif cid_pos == "none":
        man = {**head, **body}
    else:
        items = list(body.items())
        man = {**head, **dict(items[:1]), "suit-manifest-component-id": cid, **dict(items[1:])}
    deleg = {}
    if rich and cid_pos in ("middle", "last"):
        # a delegation chain (envelope key 1) is neither severable nor a payload: it stays in the stored envelope
        deleg = {"suit-delegation": [[{"CoseSign1Tagged": {"protected": {"suit-cose-algorithm-id": "cose-alg-es-256"}, "unprotected": {},
                                                           "payload": None, "signature": "ab" * 64}}]]}
    return {"SUIT_Envelope_Tagged": {**deleg, "suit-authentication-wrapper": {"SuitDigest": gen.digest("cose-alg-sha-256")}, "suit-manifest": man, **env}}


def sign(b, d):
    from .c09 import sign_main
    i, o = os.path.join(d, "s.in"), os.path.join(d, "s.out")
    open(i, "wb").write(b)
    if os.path.exists(o):
        os.unlink(o)
    sign_main(i, o, "ed25519", "eddsa", "error")
    return open(o, "rb").read()


def expected_stored(b):
    """reference: the input without its severable members (15, 16, 18, 20, 23) and without integrated payloads /
    dependencies (text keys); what remains - authentication wrapper, manifest, and a delegation chain if there is
    one - byte-identical and in the same order."""
    env, raw = impl.envelope_members(b)
    keep = [(k, raw[k]) for k in raw if isinstance(k, int) and k not in (15, 16, 18, 20, 23)]
    return refcbor.enc(refcbor.Tag(107, refcbor.Pairs((k, refcbor.Raw(v)) for k, v in keep)))


def slot_len(stored):
    # {0: 1, 1: offset(<=0xffff), 2: bstr(stored)}; offset is encoded in 1..3 bytes
    return None


def make_envelope(spec, soc, cfg, d):
    """spec = dict(role|kind, rich, signed, cid_pos, size) -> (bytes, expectation 'ok'|'reject', role)"""
    kind = spec.get("kind", "role")
    if kind == "unknown-class":
        b = impl.tool_create(role_desc("unknown.example", "nobody"))
        return b, "reject", None
    if kind == "no-component-id":
        v, c = names_for("APP_LOCAL_1", soc, cfg) or ("nordicsemi.com", "x")
        return impl.tool_create(role_desc(v, c, cid_pos="none")), "reject", None
    role = spec["role"]
    nm = names_for(role, soc, cfg)
    if nm is None:
        return None, "skip", role
    v, c = nm
    rich, signed, pos, size = spec.get("rich", False), spec.get("signed", False), spec.get("cid_pos", "middle"), spec.get("size", "small")
    slot_size = LAYOUT[soc][role][1]

    def build(filler):
        b = impl.tool_create(role_desc(v, c, rich, pos, filler))
        return sign(b, d) if signed else b
    if size == "small":
        return build(3), "ok", role
    target = slot_size + (1 if size == "too-large" else 0)
    filler = max(0, target - 600)
    for _ in range(60):
        b = build(filler)
        st = expected_stored(b)
        off = _class_offset(st)
        total = len(refcbor.enc({0: 1, 1: off, 2: st}))
        if total == target:
            return b, ("ok" if size == "exact" else "reject"), role
        filler = max(0, filler + (target - total))
    raise RuntimeError(f"cannot solve filler for {spec} ({total} vs {target})")


def _class_offset(stored):
    """offset of the 16 class-UUID bytes inside the stored envelope, located structurally with the verifier's reader."""
    top = refcbor.decode(stored)
    env = top.items[0]
    m = env.get(3)
    man = refcbor.decode(m.value)
    cid = man.get(5)
    part = cid.items[1]
    # absolute offset: start of manifest bstr content inside `stored` + offset of the uuid bstr content inside the manifest
    return (m.start + m.head) + (part.start + part.head)


def class_uuid_of(b):
    env, raw = impl.envelope_members(b)
    man = refcbor.decode(env.get(3).value)
    cid = man.get(5)
    return cid.items[1].value


def run_boot(seq_specs, soc, cfg, base, agg, key, label, via_main=False, sample=None, workdir=None):
    """execute one sequence and compare with the reference model.  -> False if a violation was reported.
    workdir: run in this (already used) directory - same configuration path, same input names, same output directory."""
    import contextlib
    import shutil
    from suit_generator import cmd_image
    with (fresh_dir("c07") if workdir is None else contextlib.nullcontext(workdir)) as d:
        outd = os.path.join(d, "out")
        shutil.rmtree(outd, ignore_errors=True)
        os.makedirs(outd)
        kc = None
        if cfg == "kconfig":
            kc = os.path.join(d, "sysbuild.config")
            write_kconfig(kc)
        elif cfg == "swapped":
            kc = os.path.join(d, "sysbuild.config")
            with open(kc, "w") as fh:
                for src, dst in SWAP.items():
                    fh.write(f'SB_CONFIG_SUIT_MPI_{kconfig_name(dst)}_VENDOR_NAME="nordicsemi.com"\n'
                             f'SB_CONFIG_SUIT_MPI_{kconfig_name(dst)}_CLASS_NAME="{DEFAULT_CLASS[soc][src]}"\n')
        files, model, expect_reject = [], {}, None
        for i, spec in enumerate(seq_specs):
            try:
                b, exp, role = make_envelope(spec, soc, cfg, d)
            except RuntimeError:
                raise
            except Exception as e:
                raise RuntimeError(f"harness: cannot build envelope {spec}: {type(e).__name__}: {e}")
            if exp == "skip":
                agg.rej(key, "role-not-addressable-in-this-configuration", nontrivial=False)
                return True
            if workdir is None and key % 3 == 1:
                # every input is called envelope.suit, each in its own directory (one build directory per image)
                os.makedirs(os.path.join(d, f"image{i}"), exist_ok=True)
                p = os.path.join(d, f"image{i}", "envelope.suit")
            else:
                p = os.path.join(d, impl.odd_name(f"e{i}", "suit", key) if workdir is None else f"e{i}.suit")
            open(p, "wb").write(b)
            files.append(p)
            if expect_reject is None:
                if exp == "reject":
                    expect_reject = f"envelope {i} ({spec})"
                elif role in model:
                    expect_reject = f"duplicate role {role}"
                else:
                    model[role] = b
        try:
            if via_main and soc == "nrf54h20":
                cmd_image.main(image="boot", input_file=files, storage_output_directory=outd, storage_address=base, config_file=kc)
            else:
                cmd_image.ImageCreator.create_files_for_boot(files, outd, base, kc, soc)
        except BaseException as e:
            if isinstance(e, (KeyboardInterrupt,)):
                raise
            left = os.listdir(outd)
            if expect_reject:
                if left:
                    agg.viol("C07:reject-left-files", f"{label}: rejected ({expect_reject}) but wrote {left}")
                    return False
                agg.rej(key, f"rejected:{type(e).__name__}", nontrivial=True)
                return True
            agg.viol(f"C07:unexpected-rejection/{type(e).__name__}", f"{label}: {type(e).__name__}: {str(e)[:250]}")
            return False
        if expect_reject:
            agg.viol("C07:should-reject", f"{label}: {expect_reject} was accepted; files {os.listdir(outd)}")
            return False
        # read back
        problems = []
        got_files = sorted(os.listdir(outd))
        want_files = sorted(f"suit_installed_envelopes_{dom}_merged.hex" for dom in DOMAINS if any(LAYOUT[soc][r][2] == dom for r in model))
        if got_files != want_files:
            problems.append(("files", f"files {got_files}, expected {want_files}"))
        for dom in DOMAINS:
            f = os.path.join(outd, f"suit_installed_envelopes_{dom}_merged.hex")
            if not os.path.exists(f):
                continue
            try:
                mem = refhex.read_hex_file(f)
            except refhex.HexError as e:
                problems.append(("malformed-hex", f"{dom}: {e}"))
                continue
            want_addr = set()
            for r, b in model.items():
                off, size, rd = LAYOUT[soc][r]
                if rd != dom:
                    continue
                rng = range(base + off, base + off + size)
                want_addr |= set(rng)
                slot = bytes(mem.get(a, 0x100) if mem.get(a) is not None else 0 for a in rng) if all(a in mem for a in rng) else None
                if slot is None:
                    problems.append(("slot-extent", f"{r}: slot at 0x{base + off:X}+{size} not fully populated"))
                    continue
                p = check_slot(slot, b, r)
                if p:
                    problems.append(p)
            if set(mem) != want_addr:
                extra = sorted(set(mem) - want_addr)[:3]
                problems.append(("slot-extent", f"{dom}: populated addresses differ from the domain's slots (e.g. extra {[hex(x) for x in extra]}, missing {len(want_addr - set(mem))})"))
    if problems:
        agg.viol(f"C07:{problems[0][0]}", f"{label}: " + "; ".join(p[1] for p in problems[:3]))
        return False
    agg.ok(key, f"ok:roles={len(model)}", sample=sample)
    return True


def check_slot(slot, inp, role):
    try:
        m = refcbor.decode_at(slot, 0)
    except refcbor.CborError as e:
        return ("slot-structure", f"{role}: slot does not start with a CBOR item: {e}")
    if m.kind != "map" or [k.value for k, _ in m.items] != [0, 1, 2] or m.indef:
        return ("slot-structure", f"{role}: slot is not the map {{0:.., 1:.., 2:..}}")
    ver, off, env = (v for _, v in m.items)
    if ver.kind != "uint" or ver.value != 1 or off.kind != "uint" or env.kind != "bstr":
        return ("slot-structure", f"{role}: slot fields have wrong types/values (version {ver.value})")
    if any(x != 0xFF for x in slot[m.end:]):
        return ("slot-padding", f"{role}: slot is not padded with 0xFF")
    stored = env.value
    want = expected_stored(inp)
    if stored != want:
        try:
            e2, r2 = impl.envelope_members(stored)
            e1, r1 = impl.envelope_members(inp)
            if set(r2) - {2, 3}:
                return ("stored-not-severed", f"{role}: stored envelope still has members {sorted(map(str, set(r2) - {2, 3}))}")
            if r2.get(3) != r1.get(3):
                return ("stored-manifest-changed", f"{role}: stored manifest is not byte-identical to the input's")
            if r2.get(2) != r1.get(2):
                return ("stored-wrapper-changed", f"{role}: stored authentication wrapper (digest/signatures) is not byte-identical to the input's")
        except refcbor.CborError as e:
            return ("stored-undecodable", f"{role}: {e}")
        return ("stored-differs", f"{role}: stored envelope differs from the input stripped to keys 2 and 3")
    cu = class_uuid_of(inp)
    if stored[off.value:off.value + 16] != cu:
        return ("class-id-offset", f"{role}: bytes at recorded offset {off.value} are {stored[off.value:off.value + 16].hex()}, class UUID is {cu.hex()}")
    return None


# -- stage A2: several generations in ONE process and ONE build directory --------------------------------
P_RUNS = [(soc, cfg, spec) for soc in ("nrf54h20", "nrf9280") for cfg in ("kconfig", "defaults", "swapped")
          for spec in ({"role": "APP_LOCAL_1"}, {"role": "SEC_TOP", "size": "exact"}, {"role": "RAD_LOCAL_1", "signed": True})]


def proc_init():
    return [((), ("start",))]


def proc_step(hist, agg, expand):
    """a history of boot-storage generations in one interpreter and one build directory (the configuration file, the
    input files and the output directory keep their paths, their content changes from run to run; SoC and configuration
    mode change too): every run is judged by the same reference model as a run in a fresh process and directory"""
    hist = tuplify(hist)
    if hist:
        with fresh_dir("c07p") as d:
            for n, i in enumerate(hist):
                soc, cfg, spec = P_RUNS[i]
                label = (f"run {n + 1} of the history {[(P_RUNS[j][0], P_RUNS[j][1], P_RUNS[j][2]['role']) for j in hist[:n + 1]]} "
                         f"in one process and build directory")
                if not run_boot([dict(spec)], soc, cfg, 0x0E1ED000, agg, h8("c07p", hist[:n + 1]), label, via_main=bool(n % 2), workdir=d,
                                sample={"history": [[P_RUNS[j][0], P_RUNS[j][1], P_RUNS[j][2]["role"]] for j in hist]} if hist == (1, 10) else None):
                    return []
    if not expand:
        return []
    return [(f"run:{P_RUNS[i][0]}/{P_RUNS[i][1]}/{P_RUNS[i][2]['role']}", hist + (i,), h8("c07ph", hist + (i,))) for i in range(len(P_RUNS))]


# -- stage A: sequences (BFS) ------------------------------------------------------------------------

LETTERS = [{"role": r} for r in ROLES] + [{"kind": "unknown-class"}, {"kind": "no-component-id"}, {"role": "APP_LOCAL_1", "size": "too-large"},
                                          {"role": "RAD_LOCAL_1", "signed": True, "rich": True}]


def seq_init():
    return [((soc, cfg), ("init", soc, cfg)) for soc in ("nrf54h20", "nrf9280") for cfg in ("kconfig", "defaults", "swapped")]


def seq_step(hist, agg, expand):
    hist = tuplify(hist)
    soc, cfg = hist[0], hist[1]
    letters = hist[2:]
    key = h8("c07s", hist)
    if letters:
        specs = [LETTERS[i] for i in letters]
        run_boot(specs, soc, cfg, 0x0E1ED000, agg, key, f"{soc}/{cfg} sequence {specs}", via_main=seed_slice(key % 1000, 7),
                 sample={"soc": soc, "config": cfg, "sequence": specs} if len(letters) == 2 and letters[0] == 6 and letters[1] == 4 else None)
    else:
        p = static_layout_check()
        if p:
            agg.viol("C07:layout-overlap", p)
        else:
            agg.ok(key, "ok:layout-static", nontrivial=False)
    if not expand:
        return []
    return [(str(LETTERS[i]), hist + (i,), h8("c07state", hist + (i,))) for i in range(len(LETTERS))]


# -- stage B: variants -------------------------------------------------------------------------------

def variant_cases(tier):
    out = []
    for soc, role in itertools.product(("nrf54h20", "nrf9280"), ROLES):
        for signed, rich, pos, size in itertools.product((False, True), (False, True), ("first", "middle", "last"), ("small", "exact", "too-large")):
            out.append({"soc": soc, "role": role, "signed": signed, "rich": rich, "cid_pos": pos, "size": size})
    return out


def run_variant(case, agg):
    spec = {k: case[k] for k in ("role", "signed", "rich", "cid_pos", "size")}
    run_boot([spec], case["soc"], "kconfig", 0x0E1ED000, agg, h8("c07v", case), f"{case['soc']} variant {spec}",
             sample=case if (case["signed"] and case["rich"] and case["size"] == "exact" and case["cid_pos"] == "last" and case["role"] == "APP_ROOT") else None)


# -- stage C: subsets / full sets --------------------------------------------------------------------

BASES = [0x0E1ED000, 0, 0xFFF0, 0x0FFFF000]


def subset_cases(tier):
    out = []
    if tier == "quick":
        for soc in LAYOUT:
            for base in BASES:
                out.append({"soc": soc, "mask": 2 ** 11 - 1, "base": base, "rev": False})
                out.append({"soc": soc, "mask": 2 ** 11 - 1, "base": base, "rev": True})
            for mask in (0b00000000111, 0b11111000000, 0b00000111000, 0b10101010101):
                out.append({"soc": soc, "mask": mask, "base": 0x0E1ED000, "rev": False})
    else:
        for soc in LAYOUT:
            for mask in range(1, 2 ** 11):
                for base in BASES:
                    out.append({"soc": soc, "mask": mask, "base": base, "rev": (mask % 3 == 0)})
    return out


def run_subset(case, agg):
    roles = [r for i, r in enumerate(ROLES) if case["mask"] >> i & 1]
    if case["rev"]:
        roles.reverse()
    run_boot([{"role": r} for r in roles], case["soc"], "kconfig", case["base"], agg, h8("c07u", case),
             f"{case['soc']} roles {roles} base 0x{case['base']:X}", sample=case if case["mask"] == 2 ** 11 - 1 and case["base"] == 0xFFF0 else None)


# -- the real CLI ---------------------------------------------------------------------------------------------

def cli_cases(tier):
    return [{"addr": a, "cfg": c, "roles": r} for a in (None, "0", "4096", "0x0E1ED000", "0XFFF0") for c in (False, True)
            for r in (["APP_LOCAL_1"], ["RAD_LOCAL_1", "APP_ROOT", "SEC_TOP"])]


def run_cli(case, agg):
    base = int(case["addr"], 0) if case["addr"] is not None else 0x0E1ED000        # documented default
    cfg = "kconfig" if case["cfg"] else "defaults"
    with fresh_dir("c07cli") as d:
        outd = os.path.join(d, "out")
        os.makedirs(outd)
        args = ["image", "boot", "--storage-output-directory", outd]
        if case["addr"] is not None:
            args += ["--storage-address", case["addr"]]
        if case["cfg"]:
            kc = os.path.join(d, "k.config")
            write_kconfig(kc)
            args += ["--config-file", kc]
        model = {}
        for i, r in enumerate(case["roles"]):
            b, exp, role = make_envelope({"role": r}, "nrf54h20", cfg, d)
            p = os.path.join(d, f"e{i}.suit")
            open(p, "wb").write(b)
            args += ["--input-file", p]
            model[r] = b
        rc, so, se = impl.cli(args, d)
        if rc != 0:
            agg.viol("C07:cli/failed", f"{case}: rc={rc} {se[-300:]}")
            return
        problems = []
        for dom in DOMAINS:
            f = os.path.join(outd, f"suit_installed_envelopes_{dom}_merged.hex")
            roles = [r for r in model if LAYOUT["nrf54h20"][r][2] == dom]
            if not roles:
                if os.path.exists(f):
                    problems.append(f"unexpected file for domain {dom}")
                continue
            if not os.path.exists(f):
                problems.append(f"no file for domain {dom}")
                continue
            mem = refhex.read_hex_file(f)
            want = set()
            for r in roles:
                off, size, _ = LAYOUT["nrf54h20"][r]
                rng = range(base + off, base + off + size)
                want |= set(rng)
                if all(a in mem for a in rng):
                    pr = check_slot(bytes(mem[a] for a in rng), model[r], r)
                    if pr:
                        problems.append(pr[1])
            if set(mem) != want:
                problems.append(f"{dom}: data at {[hex(a) for a, _ in refhex.regions(mem)][:3]}, expected slots at base 0x{base:X}")
    if problems:
        agg.viol("C07:cli/placement", f"{case}: " + "; ".join(problems[:3]))
    else:
        agg.ok(h8("c07cli", case), "ok:cli", sample=case if case["addr"] == "4096" and case["cfg"] else None)


def plan(tier):
    return [
        BfsStage("sequences", seq_init, seq_step, max_depth=2 if tier == "quick" else 3,
                 rule="add-envelope sequences over 15 letters x 2 SoCs x {build configuration, defaults}"),
        BfsStage("process-histories", proc_init, proc_step, max_depth=2 if tier == "quick" else 3,
                 rule="histories of generations in one process and one build directory: 18 runs (2 SoCs x 3 configuration modes x 3 envelopes)"),
        CaseStage("variants", lambda: variant_cases(tier), run_variant, disjoint=True, rule="role x signed x rich x component-ID position x size x SoC"),
        CaseStage("subsets", lambda: subset_cases(tier), run_subset, disjoint=True, rule="role subsets x SoC x storage base address"),
        CaseStage("cli", lambda: cli_cases(tier), run_cli, rule="real CLI: --storage-address {default, decimal, hex} x --config-file x 1/3 --input-file"),
    ]
