"""C01 - created envelopes carry correct manifest and severed-member digests."""
from __future__ import annotations

import copy
import itertools
import os

from .. import gen, impl, refcbor, registry
from ..core import CaseStage, ExploreStage, fresh_dir, h8, seed_slice

LEVEL = "exploration"
RULE = ("(a) full product: member under test x {severed+body, severed without body, inline} x 16 subsets of the other "
        "severable members x 5 wrapper algorithms x 5 member algorithms x 5 supplied-digest forms (absent, empty, wrong "
        "same length, wrong short, correct); (a2) the stale digest in each dict notation (raw, file, file_direct, envelope) at the wrapper, a dependency wrapper and each severed member; (b) manifest and each severed member solved to byte lengths 23/24/255/"
        "256/65535/65536 x 5 algorithms; (c) deviation-bounded exploration of G's envelope/manifest/text/auth scenarios "
        "incl. nested dependency envelopes (checked recursively at every level); (d) a rotating slice through "
        "cmd_create.main (JSON and YAML) and the CLI subprocess. Oracle: the verifier's CBOR reader locates keys 2, 3 "
        "and 15/16/18/20/23 in the OUTPUT by span and recomputes hash(alg, bstr item as it appears) with hashlib; "
        "supplied wrong digests must not survive. distinct = distinct descriptions; non-trivial = an envelope was "
        "produced and at least the wrapper digest was recomputed")
ASSUMPTIONS = ["hashlib SHA-2 / SHAKE (shake_128 -> 16 bytes, shake_256 -> 32 bytes)", "svmc/refcbor.py"]
BOUNDS = {"quick": "full product (a); widths (b) without 65535/65536 on members; G deviation bound 3",
          "thorough": "full product (a); all widths (b); G deviation bound 4"}

SEV = {"suit-payload-fetch": 16, "suit-install": 20, "suit-dependency-resolution": 15, "suit-candidate-verification": 18, "suit-text": 23}
SEV_NAMES = list(SEV)
SUPPLIED = ["absent", "empty", "wrong-same-length", "wrong-short", "correct"]
WRONG_SHORT = "deadbeefcafef00d"


def wrong_same(alg, member=False):
    n = registry.HASH_LEN[registry.HASH_ALGS[alg]]
    return ("a5" if member else "5a") * n


def check_digests(data: bytes, must_not_survive=(), path="env"):
    """-> (list of problems, number of digests recomputed)"""
    problems, n = [], 0
    try:
        env, raw = impl.envelope_members(data)
    except refcbor.CborError as e:
        return [f"{path}: output is not a tagged envelope: {e}"], 0
    a, m = env.get(2), env.get(3)
    man = None
    if m is None or m.kind != "bstr":
        problems.append(f"{path}: no byte-string manifest under key 3")
    else:
        try:
            man = refcbor.decode(m.value)
        except refcbor.CborError as e:
            problems.append(f"{path}: manifest undecodable: {e}")
    if a is None or a.kind != "bstr":
        problems.append(f"{path}: no authentication wrapper under key 2")
    elif m is not None:
        try:
            arr = refcbor.decode(a.value)
            dg = refcbor.decode(arr.items[0].value)
            alg, val = dg.items[0].value, dg.items[1].value
            want = registry.digest(alg, raw[3])
            n += 1
            if val != want:
                problems.append(f"{path}: wrapper digest (alg {alg}) {val.hex()[:32]}.. != hash of the wrapped manifest {want.hex()[:32]}..|wrapper")
        except (refcbor.CborError, IndexError, AttributeError, ValueError, TypeError) as e:
            problems.append(f"{path}: wrapper structure: {type(e).__name__}: {e}|wrapper-structure")
    if man is not None and man.kind == "map":
        for name, code in SEV.items():
            ref = man.get(code)
            if ref is None or ref.kind != "array" or len(ref.items) != 2 or ref.items[1].kind != "bstr":
                continue
            if code not in raw:
                continue        # body absent: the property is silent
            alg, val = ref.items[0].value, ref.items[1].value
            try:
                want = registry.digest(alg, raw[code])
            except ValueError as e:
                problems.append(f"{path}: {name}: {e}|member-alg")
                continue
            n += 1
            if val != want:
                problems.append(f"{path}: {name} digest (alg {alg}) {val.hex()[:32]}.. != hash of the member as it appears {want.hex()[:32]}..|member:{name}")
    for w in must_not_survive:
        if w and bytes.fromhex(w) in data:
            problems.append(f"{path}: supplied digest {w[:16]}.. survived into the output|supplied-survives")
    # nested envelopes at every level
    for k, v in env.items:
        if k.kind == "tstr" and v.kind == "bstr" and v.value[:2] == b"\xd8\x6b":
            p2, n2 = check_digests(v.value, (), f"{path}/{k.value}")
            problems += p2
            n += n2
    return problems, n


def report(agg, key, label, data, must_not=(), via="lib", sample=None, desc=None):
    problems, n = check_digests(data, must_not)
    if problems:
        tag = problems[0].rsplit("|", 1)[-1] if "|" in problems[0] else "malformed-output"
        agg.viol(f"C01:{tag}", f"{label}: " + "; ".join(p.rsplit('|', 1)[0] for p in problems[:3]),
                 artefacts={"desc": desc, "output": data.hex()[:3000]})
        return False
    agg.ok(key, f"ok:{via}:digests={min(n, 4)}", nontrivial=n > 0, sample=sample)
    return True


def create(desc, root, idx):
    """library path, or on a rotating slice cmd_create.main with a JSON/YAML file."""
    if seed_slice(idx, 53):
        fmt = "yaml" if (idx // 53) % 2 else "json"
        return impl.tool_create_main(copy.deepcopy(desc), root, fmt), "main-" + fmt
    return impl.tool_create(desc), "lib"


# -- (a) full product --------------------------------------------------------------------------------

def body_of(m):
    return {"en": {"suit-text-manifest-description": "text for " + m}} if m == "suit-text" else [{"suit-directive-fetch": [gen.BITS[1]]}, {"suit-condition-image-match": []}]


def product_cases(tier):
    out = []
    i = 0
    for m in SEV_NAMES:
        for form in ("severed", "severed-no-body", "inline"):
            if form == "inline" and m == "suit-text":
                continue
            for mask in range(16):
                out.append({"m": m, "form": form, "mask": mask, "i": i})
                i += 1
    return out


def build(m, form, mask, walg, malg, supplied, wsupplied):
    man, env = {}, {}
    others = [x for x in SEV_NAMES if x != m]
    order = []
    for j, o in enumerate(others):
        if mask >> j & 1:
            man[o] = gen.digest("cose-alg-sha-256")
            env[o] = body_of(o)
    if form == "inline":
        man[m] = body_of(m)
    else:
        d = gen.digest(malg)
        if supplied is not None:
            d["suit-digest-bytes"] = supplied
        man[m] = d
        if form == "severed":
            env[m] = body_of(m)
    desc = gen.minimal(man=man, env=env, alg=walg)
    if wsupplied is not None:
        desc["SUIT_Envelope_Tagged"]["suit-authentication-wrapper"]["SuitDigest"]["suit-digest-bytes"] = wsupplied
    return desc


def run_product(case, agg):
    m, form, mask = case["m"], case["form"], case["mask"]
    with fresh_dir("c01") as root:
        n = 0
        for walg in gen.ALG5:
            for malg in gen.ALG5 if form != "inline" else gen.ALG5[:1]:
                # the correct digests come from a first creation with nothing supplied
                correct_m = correct_w = None
                for sup in SUPPLIED:
                    key = h8("c01a", m, form, mask, walg, malg, sup)
                    n += 1
                    label = f"member={m} form={form} others={mask:04b} wrapper={walg} member-alg={malg} supplied={sup}"
                    sv = {"absent": None, "empty": "", "wrong-same-length": wrong_same(malg, True), "wrong-short": WRONG_SHORT[::-1], "correct": correct_m}[sup]
                    wv = {"absent": None, "empty": "", "wrong-same-length": wrong_same(walg), "wrong-short": WRONG_SHORT, "correct": correct_w}[sup]
                    if form == "inline":
                        sv = None
                    desc = build(m, form, mask, walg, malg, sv, wv)
                    try:
                        data, via = create(desc, root, case["i"] * 131 + n)
                    except Exception as e:
                        agg.viol(f"C01:create-failed/{type(e).__name__}@{impl.site_of(e)}", f"{label}: {type(e).__name__}: {e}", artefacts={"desc": desc})
                        continue
                    must_not = []
                    if sup in ("wrong-same-length", "wrong-short"):
                        must_not.append(wv)
                        if form == "severed":
                            must_not.append(sv)
                    okk = report(agg, key, label, data, must_not, via, desc=desc,
                                 sample={"member": m, "form": form, "wrapper_alg": walg, "member_alg": malg, "supplied": sup, "bytes": len(data)}
                                 if (mask == 5 and sup == "wrong-short" and walg == gen.ALG5[1] and malg == gen.ALG5[3]) else None)
                    if sup == "absent" and okk:
                        env, raw = impl.envelope_members(data)
                        arr = refcbor.decode(env.get(2).value)
                        correct_w = refcbor.decode(arr.items[0].value).items[1].value.hex()
                        man = refcbor.decode(env.get(3).value)
                        r = man.get(SEV[m])
                        correct_m = r.items[1].value.hex() if (r is not None and r.kind == "array") else None


# -- (a2) digest notations ---------------------------------------------------------------------------

NOTATIONS = ["raw", "file", "file_direct", "envelope-file", "envelope-dict"]


def notation_cases(tier):
    out = []
    for where in ["wrapper", "child-wrapper"] + SEV_NAMES:
        for nota in NOTATIONS:
            for alg in gen.ALG5:
                out.append({"where": where, "notation": nota, "alg": alg})
    return out


def run_notation(case, agg):
    """the supplied (stale) digest written in each of the description's digest notations: where the envelope carries
    the digested bytes, the output digest is the hash of those bytes whatever the notation said"""
    where, nota, alg = case["where"], case["notation"], case["alg"]
    key = h8("c01n", case)
    n = registry.HASH_LEN[registry.HASH_ALGS[alg]]
    with fresh_dir("c01n") as root:
        stale_file = os.path.join(root, "stale.bin")
        open(stale_file, "wb").write(bytes.fromhex("c3" * n))
        other = impl.tool_create(gen.minimal(man={"suit-manifest-sequence-number": 77}))
        other_file = os.path.join(root, "other.suit")
        open(other_file, "wb").write(other)
        val = {"raw": {"raw": "c3" * n}, "file": {"file": stale_file}, "file_direct": {"file_direct": stale_file},
               "envelope-file": {"envelope": other_file},
               "envelope-dict": {"envelope": gen.minimal(man={"suit-manifest-sequence-number": 78})}}[nota]
        must_not = ["c3" * n] if nota in ("raw", "file_direct") else []
        if where in ("wrapper", "child-wrapper"):
            desc = gen.minimal(alg=alg if where == "wrapper" else "cose-alg-sha-256")
            tgt = desc
            if where == "child-wrapper":
                child = gen.child_env(seq=5)
                child["SUIT_Envelope_Tagged"]["suit-authentication-wrapper"]["SuitDigest"]["suit-digest-algorithm-id"] = alg
                desc["SUIT_Envelope_Tagged"]["suit-integrated-dependencies"] = {"#child": child}
                tgt = child
            tgt["SUIT_Envelope_Tagged"]["suit-authentication-wrapper"]["SuitDigest"]["suit-digest-bytes"] = val
        else:
            desc = build(where, "severed", 0, "cose-alg-sha-256", alg, val, None)
        for via in ("lib", "main-json", "main-yaml"):
            try:
                data = impl.tool_create(copy.deepcopy(desc)) if via == "lib" else impl.tool_create_main(copy.deepcopy(desc), root, via[5:])
            except Exception as e:
                agg.viol(f"C01:notation/create-failed/{type(e).__name__}@{impl.site_of(e)}", f"{case} via {via}: {type(e).__name__}: {e}", artefacts={"desc": desc})
                return
            if not report(agg, h8(key, via), f"stale digest in {nota} notation at {where}, alg {alg}, via {via}", data, must_not, via, desc=desc,
                          sample={"where": where, "notation": nota, "alg": alg} if alg == gen.ALG5[2] and via == "lib" else None):
                return


# -- (a3) several digest fields naming ONE artifact ------------------------------------------------------------
def shared_cases(tier):
    out = []
    for nota in ("file", "file_direct", "raw", "envelope-file"):
        for alg in gen.ALG5:
            for mask in ((0b11111, 0b00011, 0b10100, 0) if tier == "quick" else range(32)):
                for with_image in (False, True):
                    out.append({"notation": nota, "alg": alg, "mask": mask, "image": with_image})
    return out


def run_shared(case, agg):
    """the wrapper digest, the digests of the severed members selected by the mask and (optionally) an image digest
    inside the manifest are ALL written as the same reference to the same artifact under the same algorithm - two
    creations in a row: each digest of the output is the hash of what the output carries, and the image digest (not a
    digest of envelope content) stays what the notation denotes"""
    nota, alg, mask = case["notation"], case["alg"], case["mask"]
    n = registry.HASH_LEN[registry.HASH_ALGS[alg]]
    algc = registry.HASH_ALGS[alg]
    with fresh_dir("c01s") as root:
        art = os.path.join(root, "artifact.bin")
        blob = bytes.fromhex("c3" * n) if nota == "file_direct" else b"artifact bytes " * 9
        open(art, "wb").write(blob)
        other = impl.tool_create(gen.minimal(man={"suit-manifest-sequence-number": 77}))
        other_file = os.path.join(root, "other.suit")
        open(other_file, "wb").write(other)

        def val():
            return {"raw": {"raw": "c3" * n}, "file": {"file": art}, "file_direct": {"file_direct": art}, "envelope-file": {"envelope": other_file}}[nota]
        want_image = {"raw": bytes.fromhex("c3" * n), "file": registry.digest(algc, blob), "file_direct": blob,
                      "envelope-file": registry.digest(algc, impl.envelope_members(other)[1][3])}[nota]
        man, env = {}, {}
        for j, m in enumerate(SEV_NAMES):
            if mask >> j & 1:
                d = gen.digest(alg)
                d["suit-digest-bytes"] = val()
                man[m] = d
                env[m] = body_of(m)
        if case["image"]:
            d = gen.digest(alg)
            d["suit-digest-bytes"] = val()
            man["suit-validate"] = [{"suit-directive-override-parameters": {"suit-parameter-image-digest": d}}]
        desc = gen.minimal(man=man, env=env, alg=alg)
        desc["SUIT_Envelope_Tagged"]["suit-authentication-wrapper"]["SuitDigest"]["suit-digest-bytes"] = val()
        must_not = ["c3" * n] if (nota in ("raw", "file_direct") and not case["image"]) else []
        for rnd, via in enumerate(("lib", "main-yaml", "lib")):
            label = f"wrapper + members {mask:05b}{' + image digest' if case['image'] else ''} all given as {nota} of one artifact, alg {alg}, creation {rnd + 1} via {via}"
            try:
                data = impl.tool_create(copy.deepcopy(desc)) if via == "lib" else impl.tool_create_main(copy.deepcopy(desc), root, via[5:])
            except Exception as e:
                agg.viol(f"C01:shared-artifact/create-failed/{type(e).__name__}@{impl.site_of(e)}", f"{label}: {type(e).__name__}: {e}", artefacts={"desc": desc})
                return
            if case["image"]:
                try:
                    menv, raw = impl.envelope_members(data)
                    mm = refcbor.decode(menv.get(3).value)
                    seq = refcbor.decode(mm.get(7).value) if mm.get(7).kind == "bstr" else mm.get(7)
                    dg = refcbor.decode(seq.items[1].get(3).value)
                    got = dg.items[1].value
                except Exception as e:
                    agg.viol("C01:shared-artifact/output-structure", f"{label}: cannot locate the image digest: {type(e).__name__}: {e}", artefacts={"desc": desc})
                    return
                if got != want_image:
                    agg.viol("C01:shared-artifact/image-digest", f"{label}: the image digest in the manifest is {got.hex()[:32]}.., the reference denotes {want_image.hex()[:32]}..",
                             artefacts={"desc": desc, "output": data.hex()[:3000]})
                    return
            if not report(agg, h8("c01s", case, rnd), label, data, must_not, via, desc=desc,
                          sample=case if (mask == 0b10100 and alg == gen.ALG5[1] and rnd == 1 and case["image"]) else None):
                return


# -- (b) width boundaries ----------------------------------------------------------------------------

def width_cases(tier):
    out = []
    lens = [23, 24, 255, 256, 65535, 65536]
    mlens = lens if tier == "thorough" else lens[:4]
    for alg in gen.ALG5:
        for L in lens:
            out.append({"what": "manifest", "L": L, "alg": alg})
        for m in SEV_NAMES:
            for L in mlens:
                out.append({"what": m, "L": L, "alg": alg})
    return out


def _solve(make, measure, target):
    """find filler length n such that measure(create(make(n))) == target (monotone, slope 1 between head switches)."""
    n = max(0, target - 200)
    seen = set()
    for _ in range(40):
        data = impl.tool_create(make(n))
        got = measure(data)
        if got == target:
            return n, data
        if (n, got) in seen:
            break
        seen.add((n, got))
        n = max(0, n + (target - got))
    return None, None


def run_width(case, agg):
    what, L, alg = case["what"], case["L"], case["alg"]
    key = h8("c01b", case)
    if what == "manifest":
        def make(n):
            return gen.minimal(man={"suit-reference-uri": "u" * n}, alg=alg)

        def measure(data):
            env, raw = impl.envelope_members(data)
            return len(env.get(3).value)
    else:
        code = SEV[what]

        def make(n):
            body = ({"en": {"suit-text-manifest-description": "t" * n}} if what == "suit-text"
                    else [{"suit-directive-override-parameters": {"suit-parameter-uri": "u" * n}}])
            return gen.minimal(man={what: gen.digest(alg, "00")}, env={what: body}, alg="cose-alg-sha-256")

        def measure(data):
            env, raw = impl.envelope_members(data)
            return len(env.get(code).value)
    try:
        n, data = _solve(make, measure, L)
    except Exception as e:
        agg.viol(f"C01:create-failed/{type(e).__name__}@{impl.site_of(e)}", f"{case}: {type(e).__name__}: {e}")
        return
    if n is None:
        if L < 40:
            agg.rej(key, "unreachable-length", nontrivial=False)   # a manifest/member cannot be that short
            return
        raise RuntimeError(f"could not solve filler for {case}")
    report(agg, key, f"{what} content length exactly {L} bytes, alg {alg}", data, ("00",) if False else (), "lib",
           sample={"what": what, "length": L, "alg": alg, "filler": n})


# -- (c) G scenarios ---------------------------------------------------------------------------------

def g_scenario(node):
    fn = gen.NODE_SCENARIOS[node]

    def sc(ch, agg):
        with fresh_dir("c01g") as root:
            desc, files = fn(ch, root)
            impl.write_files(files)
            key = h8("c01g", node, ch.choices)
            try:
                data, via = create(desc, root, key % 100003)
            except Exception as e:
                agg.rej(key, f"create-refused:{type(e).__name__}", nontrivial=False)   # acceptance is C02's business
                return
            report(agg, key, f"{node} {ch.labels()}", data, (), via, desc=desc,
                   sample={"node": node, "choices": ch.labels()} if sum(1 for c in ch.choices if c) == 2 else None)
    return sc


# -- (d) CLI subprocess ------------------------------------------------------------------------------

def cli_cases(tier):
    return [{"fmt": f, "k": k, "explicit": e} for f in ("json", "yaml") for k in range(3 if tier == "quick" else 8) for e in (False, True)]


def run_cli(case, agg):
    k = case["k"]
    m = SEV_NAMES[k % 5]
    desc = build(m, "severed", (k * 7) % 16, gen.ALG5[k % 5], gen.ALG5[(k + 2) % 5], "ab" * 32, "cd" * 32)
    desc["SUIT_Envelope_Tagged"]["suit-integrated-dependencies"] = {"#child": gen.child_env(seq=k)}
    with fresh_dir("c01cli") as root:
        inp = os.path.join(root, "in." + ("cfg" if case.get("explicit") else case["fmt"]))
        impl.dump_desc(desc, inp, case["fmt"])
        impl.prefill(os.path.join(root, "o.suit"))
        rc, out, err = impl.cli(["create", "--input-file", inp, "--output-file", os.path.join(root, "o.suit")]
                                + (["--input-format", case["fmt"]] if case.get("explicit") else []), root)
        if rc != 0:
            agg.viol("C01:cli-create-failed", f"{case}: rc={rc} {err[-300:]}")
            return
        data = open(os.path.join(root, "o.suit"), "rb").read()
    report(agg, h8("c01cli", case), f"CLI create {case}", data, ("ab" * 32, "cd" * 32), "cli", desc=desc, sample={"cli": case})


RULE += ". Further stages: " + '(a3) wrapper, member subsets and an image digest all written as the same reference to ONE artifact (4 notations x 5 algorithms), three creations in a row'


def plan(tier):
    b = 3 if tier == "quick" else 4
    st = [
        CaseStage("severed-product", lambda: product_cases(tier), run_product, chunk=1, disjoint=True,
                  rule="member x form x other-members subset x wrapper alg x member alg x supplied digest"),
        CaseStage("digest-notations", lambda: notation_cases(tier), run_notation, chunk=2,
                  rule="stale digest written as raw / file / file_direct / envelope(file) / envelope(dict) at the wrapper, a "
                       "dependency's wrapper and each severed member x 5 algorithms x library / main(JSON) / main(YAML)"),
        CaseStage("one-artifact-many-digest-fields", lambda: shared_cases(tier), run_shared, chunk=2,
                  rule="4 notations x 5 algorithms x member subsets (quick 4, thorough all 32) x {with, without} an image digest in the manifest, every field naming one artifact; 3 creations in a row"),
        CaseStage("width-boundaries", lambda: width_cases(tier), run_width, chunk=1,
                  rule="manifest / severed member byte length at 23,24,255,256,65535,65536 x 5 algorithms"),
    ]
    for node in ("envelope", "manifest", "text", "auth", "whole"):
        st.append(ExploreStage(f"G:{node}", g_scenario(node), bound=(b - 1 if node == "whole" else b) if node in ("envelope", "auth", "whole") else None,
                               rule=f"G scenario {node}, digests recomputed at every nesting level"))
    st.append(CaseStage("cli", lambda: cli_cases(tier), run_cli, chunk=1, rule="real CLI subprocess, JSON and YAML"))
    return st
