"""C02 - envelope wire format is the SUIT/COSE encoding of the description (translation check against refsuit)."""
from __future__ import annotations

import copy
import os

from .. import gen, impl, refsuit, refcbor
from ..core import ExploreStage, fresh_dir, h8, seed_slice

LEVEL = "exploration"
RULE = ("choice-point exploration of the description grammar G: node-local products of every node type (manifest "
        "members, common, component identifiers, all 22 commands, all 14 parameters, encryption info with nested "
        "recipients, authentication blocks with CWT claims, severed text maps, versions, envelope members/payloads/"
        "dependencies), each either as the full product or to the stated deviation bound; for every generated "
        "description SuitEnvelopeTagged.from_obj(desc)+refresh+to_cbor() (and cmd_create.main with JSON/YAML files on a "
        "rotating slice) must equal svmc.refsuit.encode_envelope(desc) byte for byte, be definite-length shortest-form, "
        "and the tool must not reject a description of the language. distinct = distinct descriptions (hash); "
        "non-trivial = both encoders produced bytes and they were compared")
ASSUMPTIONS = ["svmc/refsuit.py + svmc/registry.py encode the drafts correctly (trusted: my reading of the drafts)",
               "language conventions listed in DESIGN.md section 5/C02 (hex-literal vs path, component-part forms, "
               "non-empty protected buckets, unique payload names, no duplicate policy bits)",
               "excluded by the property: text map embedded unsevered in the manifest, suit-delegation"]

# node scenario -> (quick bound, thorough bound); None = full product
BOUNDS_TBL = {
    "manifest": (None, None),
    "common": (3, 4),
    "component-id": (3, None),
    "commands": (4, 5),
    "two-key-command": (None, None),
    "parameters": (3, 4),
    "auth": (4, 5),
    "text": (None, None),
    "version": (None, None),
    "envelope": (4, 5),
    "confusable": (None, None),
    "recipient-keys": (None, None),
    "whole": (2, 3),
}
BOUNDS = {"quick": "deviation bounds per node scenario: " + ", ".join(f"{k}={'full' if v[0] is None else v[0]}" for k, v in BOUNDS_TBL.items()),
          "thorough": "deviation bounds per node scenario: " + ", ".join(f"{k}={'full' if v[1] is None else v[1]}" for k, v in BOUNDS_TBL.items())}


def compare(desc, files, root, agg, key, idx, label, dev=99):
    try:
        ref = refsuit.encode_envelope(copy.deepcopy(desc), refsuit.FS(files, root))
    except refsuit.RefError as e:
        agg.rej(key, "outside-reference-language", nontrivial=False)
        agg.note("outside-reference-language")
        return None
    impl.write_files(files)
    via = "lib"
    try:
        if seed_slice(idx, 41):
            fmt = "json" if (idx // 41) % 2 == 0 else "yaml"
            got = impl.tool_create_main(copy.deepcopy(desc), root, fmt)
            via = "main-" + fmt
        else:
            got = impl.tool_create(desc)
    except Exception as e:
        agg.viol(f"C02:tool-rejects/{type(e).__name__}@{impl.site_of(e)}",
                 f"{label}: description of the language rejected: {type(e).__name__}: {str(e)[:300]}",
                 artefacts={"desc": desc})
        return None
    if got != ref:
        d = impl.diff_path(got, ref) or ("?", "?")
        tail = d[0].rsplit("<bstr>/", 1)[-1] if "<bstr>/" in d[0] else d[0]
        agg.viol(f"C02:mismatch@{tail}", f"{label}: tool bytes differ from the reference encoding at {d[0]}: tool {d[1]} (tool vs reference)",
                 artefacts={"desc": desc, "tool": got.hex()[:2000], "reference": ref.hex()[:2000]})
        return None
    nc = refcbor.is_canonical(got)
    if nc:
        agg.viol("C02:non-canonical", f"{label}: {nc}", artefacts={"desc": desc})
        return None
    if dev <= 2:
        # both text renderings of the description through real files
        for fmt in ("json", "yaml"):
            try:
                g2 = impl.tool_create_main(copy.deepcopy(desc), root, fmt)
            except Exception as e:
                agg.viol(f"C02:tool-rejects/{fmt}/{type(e).__name__}@{impl.site_of(e)}", f"{label}: the {fmt} rendering of the description is rejected: {type(e).__name__}: {str(e)[:300]}",
                         artefacts={"desc": desc})
                return None
            if g2 != ref:
                d = impl.diff_path(g2, ref) or ("?", "?")
                tail = d[0].rsplit("<bstr>/", 1)[-1] if "<bstr>/" in d[0] else d[0]
                agg.viol(f"C02:mismatch/{fmt}@{tail}", f"{label}: the {fmt} rendering gives bytes that differ from the reference encoding at {d[0]}: {d[1]}",
                         artefacts={"desc": desc})
                return None
        via += "+files"
    return got, via


def node_scenario(node):
    fn = gen.NODE_SCENARIOS[node]

    def sc(ch, agg):
        with fresh_dir("c02") as root:
            desc, files = fn(ch, root)
            key = h8("c02", node, ch.choices)
            idx = key % 100003
            r = compare(desc, files, root, agg, key, idx, f"{node} {ch.labels()}", dev=sum(1 for c in ch.choices if c))
            if r:
                agg.ok(key, f"ok:{r[1]}", sample={"node": node, "choices": ch.labels(), "bytes": len(r[0])} if not any(ch.choices) else None)
    return sc


def plan(tier):
    ti = 0 if tier == "quick" else 1
    st = []
    for node, b in BOUNDS_TBL.items():
        st.append(ExploreStage(f"node:{node}", node_scenario(node), bound=b[ti],
                               rule=f"node-local choice tree of {node}, " + ("full product" if b[ti] is None else f"deviation bound {b[ti]}")))
    return st
