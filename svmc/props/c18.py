"""C18 - output depends only on the inputs (model checking over interpreter histories)."""
from __future__ import annotations

import itertools
import os
import shutil
import subprocess
import sys

from .. import core, ops18
from ..core import CaseStage, fresh_dir, h8, seed_slice

LEVEL = "model_checking"
RULE = ("operations (27:  create of four base descriptions from JSON and from YAML, create twice from one loaded object, "
        "parse to YAML/JSON +/- hierarchy, image boot (2 sets), image update, mpi generate/merge, cache from_payloads/"
        "from_envelope/merge, sign Ed25519 (deterministic), sign ES256 (all but the signature bytes), encrypt (all but IV/"
        "ciphertext/tag). Reference: each operation alone in a FRESH interpreter under PYTHONHASHSEED in {0,1,2,4242,random} "
        "and cwd in {scratch, /, a directory of decoy files named like the inputs}; all references of one operation must be "
        "byte-identical, and JSON and YAML renderings must give identical envelopes. Histories (each in one fresh interpreter, "
        "the output at the compared positions must equal that operation's reference): star histories A;B1..B30 in two "
        "orders with every position compared (quick), every ordered pair A;B incl. A;A (thorough; pairs are the deviation "
        "bound that exposes state leaking from one call into the next); all permutations of two 4-operation sets (every position "
        "compared); the pairs once more with the verification hook OFF (slice in quick, all in thorough); thorough adds "
        "all triples of the 8 operations that touch class tables. Histories are never merged (hidden interpreter state). "
        "states = histories executed, transitions = operations executed inside them")
ASSUMPTIONS = ["inputs are given by absolute path", "randomised parts (ECDSA signature value, IV/ciphertext/tag) are masked as the property allows"]
BOUNDS = {"quick": "30 x 7 references; 60 star histories (A then all 30 operations, two orders, every position compared); 48 permutations; 30 star histories with the hook off",
          "thorough": "+ all 30^2 ordered pairs, hook on and off; 8^3 triples of the class-table operations"}

OPNAMES = list(ops18.OPS)


def inputs_dir():
    d = os.path.join(core.run_scratch(), "c18in")
    marker = os.path.join(d, ".complete")
    if os.path.exists(marker):
        return d
    # prepared (by the serial first stage, i.e. before any worker exists) in a fresh interpreter so that nothing of this
    # harness process leaks into the inputs; built in place because the descriptions embed absolute paths
    shutil.rmtree(d, ignore_errors=True)
    p = subprocess.run([sys.executable, "-c", "import sys; from svmc import ops18; ops18.prepare(sys.argv[1])", d], env=_env(True, "0"),
                       capture_output=True, text=True, timeout=600)
    if p.returncode != 0:
        raise RuntimeError(f"harness: preparing C18 inputs failed: {p.stderr[-800:]}")
    open(marker, "w").close()
    return d


def _env(hook, hashseed):
    env = {k: v for k, v in os.environ.items() if k not in ("SUIT_GENERATOR_VERIF", "PYTHONHASHSEED")}
    if hook:
        env["SUIT_GENERATOR_VERIF"] = "1"
    if hashseed != "random":
        env["PYTHONHASHSEED"] = hashseed
    env["PYTHONPATH"] = core.VERIF + os.pathsep + core.REPO
    env["PYTHONDONTWRITEBYTECODE"] = "1"
    return env


def run_history(ops, work, hook=True, hashseed="0", cwd=None):
    """-> list of results (bytes) per operation"""
    inp = inputs_dir()
    os.makedirs(work, exist_ok=True)
    p = subprocess.run([sys.executable, "-m", "svmc.ops18", inp, work] + list(ops), env=_env(hook, hashseed), cwd=cwd or work,
                       capture_output=True, text=True, timeout=600)
    out = []
    for i in range(len(ops)):
        f = os.path.join(work, f"result_{i}.bin")
        out.append(open(f, "rb").read() if os.path.exists(f) else f"NO RESULT rc={p.returncode} {p.stderr[-300:]}".encode())
    return out


def ref_path(op):
    return os.path.join(core.run_scratch(), "c18ref", op + ".bin")


def reference(op):
    """reference result of an operation (computed on demand, cached on disk for the run)."""
    p = ref_path(op)
    if os.path.exists(p):
        return open(p, "rb").read()
    with fresh_dir("c18r") as d:
        r = run_history([op], os.path.join(d, "w"))[0]
    os.makedirs(os.path.dirname(p), exist_ok=True)
    tmp = p + f".{os.getpid()}"
    open(tmp, "wb").write(r)
    os.replace(tmp, p)
    return r


def describe_diff(a, b):
    if a.startswith(b"EXCEPTION") or a.startswith(b"NO RESULT"):
        return a[:300].decode(errors="replace")
    i = next((j for j in range(min(len(a), len(b))) if a[j] != b[j]), min(len(a), len(b)))
    return f"first difference at byte {i} of {len(a)}/{len(b)}: ...{a[max(0, i - 8):i + 16].hex()} vs ...{b[max(0, i - 8):i + 16].hex()}"


# -- references ---------------------------------------------------------------------------------------

_DECOYS = []


def decoy_names():
    """every scalar of the input descriptions that could be taken for a file name (in-line hex payloads, digests,
    names, numbers): a file of that name in the working directory must not matter - the inputs are given by absolute path"""
    if not _DECOYS:
        from .. import ops18
        seen = set()

        def walk(o):
            if isinstance(o, dict):
                for k, v in o.items():
                    walk(k)
                    walk(v)
            elif isinstance(o, (list, tuple)):
                for v in o:
                    walk(v)
            elif isinstance(o, (str, int)) and not isinstance(o, bool):
                t = str(o)
                if t and "/" not in t and "\x00" not in t and len(t.encode()) < 200 and t not in (".", ".."):
                    seen.add(t)
                    seen.add(t.lower())
                    seen.add(t.upper())
        walk(ops18.descriptions("/nonexistent-inputs"))
        _DECOYS.extend(sorted(seen))
    return list(_DECOYS)


def run_reference(case, agg):
    op = case["op"]
    key = h8("c18ref", op)
    with fresh_dir("c18") as d:
        decoy = os.path.join(d, "decoy")
        os.makedirs(decoy)
        for f in ["fw.bin", "other.bin", "child2.suit", "B1.suit", "B3.suit", "B1.yaml", "app.config", "ed25519.pem", "aes.bin"] + decoy_names():
            try:
                open(os.path.join(decoy, f), "wb").write(b"DECOY " + f.encode())
            except OSError:
                pass
        variants = [("0", None), ("1", None), ("2", None), ("4242", None), ("random", None), ("0", "/"), ("0", decoy)]
        results = []
        for i, (hs, cwd) in enumerate(variants):
            results.append(run_history([op], os.path.join(d, f"w{i}"), True, hs, cwd)[0])
    base = results[0]
    if base.startswith(b"EXCEPTION") or base.startswith(b"NO RESULT"):
        agg.viol(f"C18:operation-failed/{op}", f"{op} alone in a fresh interpreter: {base[:300].decode(errors='replace')}")
        return
    for (hs, cwd), r in zip(variants[1:], results[1:]):
        if r != base:
            what = "hash-seed" if cwd is None else "working-directory"
            agg.viol(f"C18:depends-on-{what}/{op.split('-')[0]}", f"{op}: result under PYTHONHASHSEED={hs} cwd={cwd or 'scratch'} differs from seed 0 / scratch: {describe_diff(r, base)}")
            return
    os.makedirs(os.path.dirname(ref_path(op)), exist_ok=True)
    open(ref_path(op), "wb").write(base)
    agg.ok(key, "ok:references-agree", sample={"operation": op, "variants": len(variants), "result_bytes": len(base)} if op == "create-B3-yaml" else None)
    agg.states += len(variants)
    agg.transitions += len(variants)


def run_formats(case, agg):
    n = case["n"]
    a, b = reference(f"create-{n}-json"), reference(f"create-{n}-yaml")
    if a != b:
        agg.viol("C18:json-yaml-differ", f"{n}: JSON and YAML renderings of the same description give different envelopes: {describe_diff(a, b)}")
    else:
        agg.ok(h8("c18fmt", n), "ok:json==yaml", sample={"description": n})
    if case["n"] == "B1":
        tw = parse_canonical(reference("create-twice"))
        plain = parse_canonical(reference("create-B1-yaml")).get("suit")
        if not (tw.get("first") == tw.get("second") == plain and plain):
            agg.viol("C18:create-twice-differs", "dumping one loaded description twice does not give the same envelope both times / the plain create result")
        else:
            agg.ok(h8("c18twice"), "ok:create-twice")


def parse_canonical(b):
    out = {}
    pos = 0
    try:
        while pos < len(b):
            z = b.index(b"\x00", pos)
            k = b[pos:z].decode()
            n = int.from_bytes(b[z + 1:z + 9], "big")
            out[k] = b[z + 9:z + 9 + n]
            pos = z + 9 + n
    except ValueError:
        pass
    return out


# -- histories ----------------------------------------------------------------------------------------

def run_seq(case, agg):
    ops = case["ops"]
    hook = case.get("hook", True)
    key = h8("c18h", ops, hook)
    with fresh_dir("c18h") as d:
        res = run_history(ops, os.path.join(d, "w"), hook)
    positions = range(len(ops)) if case.get("all_positions") else [len(ops) - 1]
    for i in positions:
        want = reference(ops[i])
        if res[i] != want:
            prev = ops[:i]
            agg.viol(f"C18:history-dependent/{ops[i]}" + ("" if hook else "/hook-off"),
                     f"{ops[i]} after {prev or 'nothing'} in one interpreter{'' if hook else ' (hook off)'} differs from the same operation in a fresh interpreter: {describe_diff(res[i], want)}")
            return
    agg.ok(key, f"ok:len={len(ops)}{'' if hook else ':hook-off'}", sample={"history": ops, "hook": hook} if ops == ["create-B1-yaml", "parse-yaml-hier"] else None)
    agg.states += 1
    agg.transitions += len(ops)


def pair_cases(tier):
    if tier == "thorough":
        return [{"ops": [a, b]} for a in OPNAMES for b in OPNAMES]
    return []


def star_cases(tier, hook=True):
    """A followed by every operation (rotated so that each B directly follows A in some history), every position compared:
    27 + 27 interpreters instead of 729; a leak from A into any later operation shows at that operation's position."""
    out = []
    n = len(OPNAMES)
    for i, a in enumerate(OPNAMES):
        rest = OPNAMES[i:] + OPNAMES[:i]
        out.append({"ops": [a] + rest, "all_positions": True, "hook": hook})
        if hook:
            out.append({"ops": [a] + rest[::-1], "all_positions": True, "hook": hook})
    return out


def hookoff_cases(tier):
    out = star_cases(tier, hook=False)
    if tier == "thorough":
        out += [{"ops": [a, b], "hook": False} for a in OPNAMES for b in OPNAMES]
    return out


def run_prepare(case, agg):
    d = inputs_dir()
    agg.ok(h8("c18prep"), "ok:inputs-prepared", nontrivial=False, sample={"inputs": sorted(os.listdir(d))[:40]})


def perm_cases(tier):
    sets = [["create-B3-yaml", "parse-yaml-hier", "boot-1", "sign-ed25519"], ["create-twice", "cache-envelope", "create-B2-json", "encrypt"]]
    return [{"ops": list(p), "all_positions": True} for s in sets for p in itertools.permutations(s)]


def triple_cases(tier):
    if tier != "thorough":
        return []
    return [{"ops": list(t)} for t in itertools.product(ops18.CLASS_TABLE_OPS, repeat=3)]


def plan(tier):
    return [
        CaseStage("prepare-inputs", [{}], run_prepare, serial=True, rule="input files written once by a fresh interpreter"),
        CaseStage("references", [{"op": o} for o in OPNAMES], run_reference, chunk=1, rule="each operation alone in fresh interpreters: 5 hash seeds + 3 working directories"),
        CaseStage("json-vs-yaml", [{"n": n} for n in ("B0", "B1", "B2", "B3")], run_formats, rule="same description as JSON and YAML"),
        CaseStage("stars", lambda: star_cases(tier), run_seq, chunk=1, rule="A followed by all operations (two orders), every position compared"),
        CaseStage("permutations", lambda: perm_cases(tier), run_seq, chunk=1, rule="all permutations of two 4-operation sets, every position compared"),
        CaseStage("hook-off", lambda: hookoff_cases(tier), run_seq, chunk=1, rule="star histories (thorough: all pairs) with the verification hook off"),
    ] + ([CaseStage("pairs", lambda: pair_cases(tier), run_seq, chunk=2, rule="all ordered pairs A;B in one interpreter"),
          CaseStage("triples", lambda: triple_cases(tier), run_seq, chunk=2, rule="all triples of the class-table operations")] if tier == "thorough" else [])
