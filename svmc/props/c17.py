"""C17 - parsing untrusted bytes fails cleanly (exhaustive single-fault enumeration)."""
from __future__ import annotations

import copy
import os
import resource
import signal
import time

from .. import gen, impl, refcbor
from ..core import CaseStage, h8
from ..refcbor import enc, Raw, Tag

LEVEL = "fault_enumeration"
RULE = ("seeds: envelopes from G chosen to contain every node type (signed with CWT, encryption info with nested "
        "recipients, text map, dependencies, nested try-each/run-sequence, hierarchical). Fault alphabet, applied "
        "exhaustively: (1) every node of the seed's tree, through every bstr-wrapped layer, replaced by each of 49 "
        "representatives of every CBOR major type and of the structures the parser special-cases; (2) every map key "
        "replaced by {unknown uint, negative, text, bytes, array}; (3) every array element / map entry deleted and "
        "duplicated; (4) every truncation b[:i]; (5) every head's length argument replaced by {len+-1, 2^16-1, 2^32-1, "
        "2^63, 2^64-1} in every width and by the indefinite marker; (6) every byte x {00, FF, ^01, ^80, next major type}; "
        "(7) nesting families to depth 10^4. Oracle: the outcome of SuitEnvelopeTagged.from_cbor(b).to_obj() (and, for the structural fault classes, of the simplified envelope parser SuitEnvelopeTaggedSimplified) is a return, "
        "a ValueError (incl. CBORDecodeError) or a SUITError - anything else is a violation fingerprinted by exception "
        "type and raising function; per input CPU-time budget max(5 s, 2 ms/byte) and RSS growth ceiling 64 MiB + 256 x "
        "len. distinct = distinct mutated inputs (hash); non-trivial = the parser ran on the input and its outcome was classified")
ASSUMPTIONS = ["'all byte strings' is not enumerable; the claim is the stated single-fault neighbourhoods of the seeds plus the depth families",
               "time/memory proportionality is checked against generous absolute ceilings"]
BOUNDS = {"quick": "2 seeds, all seven fault classes, single faults", "thorough": "6 seeds, all seven fault classes, single faults"}


# -- deep tree (descends through bstr .cbor) -----------------------------------------------------------

def deep(data: bytes, it=None):
    it = it or refcbor.decode(data)
    k = it.kind
    if k in ("uint", "nint", "tstr", "simple", "float"):
        return ["raw", it.raw(data)]
    if k == "bstr":
        sub = None
        if len(it.value) > 0:
            try:
                sub = deep(it.value)
            except refcbor.CborError:
                sub = None
        return ["bstr", it.value, sub]
    if k == "array":
        return ["array", [deep(data, c) for c in it.items]]
    if k == "map":
        return ["map", [[deep(data, a), deep(data, b)] for a, b in it.items]]
    if k == "tag":
        return ["tag", it.value, deep(data, it.items[0])]
    raise ValueError(k)


def encode(n) -> bytes:
    t = n[0]
    if t == "raw":
        return n[1]
    if t == "bstr":
        return enc(encode(n[2])) if n[2] is not None else enc(n[1])
    if t == "array":
        return refcbor.head(4, len(n[1])) + b"".join(encode(c) for c in n[1])
    if t == "map":
        return refcbor.head(5, len(n[1])) + b"".join(encode(a) + encode(b) for a, b in n[1])
    if t == "tag":
        return refcbor.head(6, n[1]) + encode(n[2])
    raise ValueError(t)


def paths(n, p=()):
    """all node paths; a path is a tuple of steps: ('sub',) into bstr content, ('el', i), ('key', i), ('val', i), ('tagged',)"""
    yield p
    t = n[0]
    if t == "bstr" and n[2] is not None:
        yield from paths(n[2], p + (("sub",),))
    elif t == "array":
        for i, c in enumerate(n[1]):
            yield from paths(c, p + (("el", i),))
    elif t == "map":
        for i, (a, b) in enumerate(n[1]):
            yield from paths(a, p + (("key", i),))
            yield from paths(b, p + (("val", i),))
    elif t == "tag":
        yield from paths(n[2], p + (("tagged",),))


def get(n, p):
    for s in p:
        if s[0] == "sub":
            n = n[2]
        elif s[0] == "el":
            n = n[1][s[1]]
        elif s[0] == "key":
            n = n[1][s[1]][0]
        elif s[0] == "val":
            n = n[1][s[1]][1]
        else:
            n = n[2]
    return n


def replaced(root, p, new):
    """copy of root with the node at path p replaced by `new` (a node)."""
    if not p:
        return new
    root = copy.copy(root)
    s = p[0]
    if s[0] == "sub":
        root[2] = replaced(root[2], p[1:], new)
    elif s[0] == "el":
        root[1] = list(root[1])
        root[1][s[1]] = replaced(root[1][s[1]], p[1:], new)
    elif s[0] in ("key", "val"):
        root[1] = [list(x) for x in root[1]]
        j = 0 if s[0] == "key" else 1
        root[1][s[1]][j] = replaced(root[1][s[1]][j], p[1:], new)
    else:
        root[2] = replaced(root[2], p[1:], new)
    return root


REPRESENTATIVES = [enc(x) for x in (0, 23, 24, 2**32, 2**64 - 1, -1, -25, -2**64, b"", b"\x00", b"\xa0", b"\x80", b"\xf6", b"x" * 300, "", "a", "t" * 300,
                                    [], [0], [[[]]], [b"", {}], {}, {0: 0}, {"a": {}}, None, True, False)] + \
                  [b"\xf7", b"\xf9\x3c\x00", enc(Tag(18, [])), enc(Tag(96, [])), enc(Tag(107, {})), enc(Tag(2, b"\x01")), enc(Tag(24, b"\x00")),
                   enc(Tag(18, [b"", {}, None, b""])), enc([-16, b""])]
REPRESENTATIVES += [enc(bytes([x])) for x in (0x18, 0x38, 0x58, 0x78, 0x98, 0xB8, 0xD8, 0xF8, 0x5F, 0x9F, 0xBF, 0x1C, 0xFF)]
KEY_REPLACEMENTS = [enc(x) for x in (99, 2**32, -1, -70000, "k", b"k", [1], None)]


def seeds(tier):
    B = gen.BITS
    full = copy.deepcopy(gen.PARAM_DEFAULTS)
    full["suit-parameter-encryption-info"]["CoseEncryptTagged"]["recipients"][0]["recipients"] = [
        {"protected": {"suit-cose-algorithm-id": "cose-alg-a128kw"}, "unprotected": {"suit-cose-key-id": "0011"}, "ciphertext": "aabbcc"}]
    s1 = gen.minimal(man={**copy.deepcopy(gen.MAN_DEFAULTS),
                          "suit-common": {"suit-dependencies": {"0": {}, "1": {"suit-dependency-prefix": ["a", 5]}},
                                          "suit-components": [["M", 2, 235577344], ["INSTLD_MFST", dict(gen.UUID_RAW)]],
                                          "suit-shared-sequence": [{"suit-directive-set-component-index": [0, 1]}, {"suit-directive-override-parameters": full}]},
                          "suit-install": [{"suit-directive-try-each": [[{"suit-condition-image-match": [B[0]]}],
                                                                        [{"suit-directive-run-sequence": [{"suit-directive-set-component-index": True}]}]]},
                                           {"suit-directive-override-parameters": {"suit-parameter-version": {"suit-condition-version-comparison-greater": "1.2.3-rc.1"}}}],
                          "suit-text": gen.digest("cose-alg-sha-256")},
                     env={"suit-text": {"en": {"suit-text-manifest-description": "d", '["M", 2]': {"suit-text-vendor-name": "v"}}},
                          "suit-integrated-payloads": {"#p": "0102"}})
    s1["SUIT_Envelope_Tagged"]["suit-authentication-wrapper"]["SuitAuthentication0"] = {"CoseSign1Tagged": {
        "protected": {"suit-cose-algorithm-id": "cose-alg-es-256", "suit-cose-key-id": 0x7FFFFFE0}, "unprotected": {},
        "payload": {"Issuer": "i", "Expiration Time": 5, "CW ID": "01"}, "signature": "ab" * 64}}
    child = gen.child_env(seq=4, extra={"suit-integrated-payloads": {"#x": "00"}})
    s2 = gen.minimal(man={"suit-manifest-component-id": ["INSTLD_MFST", {"RFC4122_UUID": {"namespace": "n", "name": "c"}}],
                          "suit-payload-fetch": gen.digest("cose-alg-shake128"),
                          "suit-candidate-verification": [{"suit-directive-override-parameters": {
                              "suit-parameter-uri": "#dep", "suit-parameter-image-digest": gen.digest("cose-alg-sha-512", {"envelope": copy.deepcopy(child)})}},
                              {"suit-directive-fetch": [B[1]]}]},
                     env={"suit-payload-fetch": [{"suit-directive-fetch": []}], "suit-integrated-dependencies": {"#dep": child}})
    out = {"s1-everything": s1, "s2-hierarchical": s2}
    if tier == "thorough":
        out["s3-minimal"] = gen.minimal()
        out["s4-typical"] = gen.minimal(man=copy.deepcopy(gen.MAN_DEFAULTS))
        s5 = copy.deepcopy(s1)
        s5["SUIT_Envelope_Tagged"]["suit-authentication-wrapper"]["SuitAuthentication1"] = copy.deepcopy(s5["SUIT_Envelope_Tagged"]["suit-authentication-wrapper"]["SuitAuthentication0"])
        out["s5-two-signatures"] = s5
        out["s6-text-heavy"] = gen.minimal(man={"suit-text": gen.digest()}, env={"suit-text": {"en": {"suit-text-update-description": "u" * 300, '[]': {}},
                                                                                                "pl": {'["a", {"raw": "00"}]': {"suit-text-model-name": "m"}}}})
    return out


_SEED_BYTES = {}


def seed_bytes(tier, name):
    if (tier, name) not in _SEED_BYTES:
        _SEED_BYTES[(tier, name)] = impl.tool_create(seeds(tier)[name])
    return _SEED_BYTES[(tier, name)]


# -- the parser under budgets ------------------------------------------------------------------------

class _Timeout(BaseException):
    pass


def _alarm(signum, frame):
    raise _Timeout()


def parse_outcome(b: bytes, simplified=False):
    """-> (class, fingerprint or None, text)"""
    from suit_generator.suit.envelope import SuitEnvelopeTagged, SuitEnvelopeTaggedSimplified
    from suit_generator.exceptions import SUITError
    if simplified:
        SuitEnvelopeTagged = SuitEnvelopeTaggedSimplified
    budget = max(5.0, 0.002 * len(b))
    rss0 = resource.getrusage(resource.RUSAGE_SELF).ru_maxrss
    t0 = time.process_time()
    old = signal.signal(signal.SIGALRM, _alarm)
    signal.setitimer(signal.ITIMER_REAL, budget * 10)
    try:
        try:
            SuitEnvelopeTagged.from_cbor(b).to_obj()
            res = ("returns", None, "")
        except ValueError as e:
            res = ("ValueError", None, "")
        except SUITError:
            res = ("SUITError", None, "")
        except _Timeout:
            res = ("hang", "C17:hang", f"no result within {budget * 10:.0f} s wall clock")
        except BaseException as e:
            if isinstance(e, KeyboardInterrupt):
                raise
            site = impl.site_of(e).split(":")[-1]
            # qualified name of the raising function: class of the bound type if available
            res = (type(e).__name__, f"C17:{type(e).__name__}@{_qual(e)}", f"{type(e).__name__}: {str(e)[:160]}")
    finally:
        signal.setitimer(signal.ITIMER_REAL, 0)
        signal.signal(signal.SIGALRM, old)
    cpu = time.process_time() - t0
    grow = (resource.getrusage(resource.RUSAGE_SELF).ru_maxrss - rss0) * 1024
    if res[1] is None and cpu > budget:
        res = ("slow", "C17:cpu-budget", f"{cpu:.1f} s CPU for {len(b)} bytes (budget {budget:.1f} s)")
    if res[1] is None and grow > 64 * 2**20 + 256 * len(b):
        res = ("memory", "C17:memory-budget", f"RSS grew by {grow >> 20} MiB for {len(b)} bytes")
    return res


def _qual(e):
    """Class.function of the innermost frame inside the tool."""
    import traceback
    tb = e.__traceback__
    last = None
    repo = os.path.realpath(os.environ.get("SVMC_REPO", "/repo"))
    while tb:
        fr = tb.tb_frame
        if os.path.realpath(fr.f_code.co_filename).startswith(repo):
            last = fr
        tb = tb.tb_next
    if last is None:
        return impl.site_of(e)
    name = last.f_code.co_name
    if name == "<listcomp>" or name == "<genexpr>":
        name = "comprehension"
    q = getattr(last.f_code, "co_qualname", name)
    return q.replace(".<locals>", "").replace("<", "").replace(">", "")


# -- fault classes -----------------------------------------------------------------------------------

def mutations(b: bytes, cls: str):
    """generator of (description, mutated bytes) for one fault class."""
    root = deep(b)
    if cls == "node-replace":
        for p in paths(root):
            for ri, r in enumerate(REPRESENTATIVES):
                yield (f"node {p} -> representative #{ri} ({r[:12].hex()})", encode(replaced(root, p, ["raw", r])))
    elif cls == "key-replace":
        for p in paths(root):
            if p and p[-1][0] == "key":
                for ri, r in enumerate(KEY_REPLACEMENTS):
                    yield (f"map key {p} -> {r[:12].hex()}", encode(replaced(root, p, ["raw", r])))
    elif cls == "delete-duplicate":
        for p in paths(root):
            n = get(root, p)
            if n[0] in ("array", "map"):
                for i in range(len(n[1])):
                    yield (f"{n[0]} {p}: element {i} deleted", encode(replaced(root, p, [n[0], n[1][:i] + n[1][i + 1:]])))
                    yield (f"{n[0]} {p}: element {i} duplicated", encode(replaced(root, p, [n[0], n[1][:i + 1] + n[1][i:]])))
    elif cls == "truncate":
        for i in range(len(b)):
            yield (f"truncated to {i} bytes", b[:i])
    elif cls == "length-field":
        # walk all heads of the outermost encoding and of every embedded layer
        def heads(data, base_desc):
            try:
                it = refcbor.decode(data)
            except refcbor.CborError:
                return
            stack = [it]
            while stack:
                x = stack.pop()
                if x.kind in ("bstr", "tstr", "array", "map"):
                    mt = {"bstr": 2, "tstr": 3, "array": 4, "map": 5}[x.kind]
                    n = len(x.value) if x.kind == "bstr" else len(x.value.encode()) if x.kind == "tstr" else x.value
                    for newn in (n + 1, max(0, n - 1), 2**16 - 1, 2**32 - 1, 2**63, 2**64 - 1):
                        for width in (0, 1, 2, 4, 8):
                            if newn >= (24 if width == 0 else 2 ** (8 * width)):
                                continue
                            hd = bytes([(mt << 5) | newn]) if width == 0 else bytes([(mt << 5) | {1: 24, 2: 25, 4: 26, 8: 27}[width]]) + newn.to_bytes(width, "big")
                            yield (f"{base_desc}{x.kind}@{x.start} length {n} -> {newn} (width {width})", x.start, x.head, hd)
                    yield (f"{base_desc}{x.kind}@{x.start} made indefinite", x.start, x.head, bytes([(mt << 5) | 31]))
                if x.items:
                    for c in x.items:
                        stack.extend(c if isinstance(c, tuple) else [c])
        for desc, start, hl, hd in heads(b, ""):
            yield (desc, b[:start] + hd + b[start + hl:])
        # embedded layers: re-splice without fixing the outer lengths (that is the fault)
        for p in paths(root):
            n = get(root, p)
            if n[0] == "bstr" and n[2] is not None and p:
                inner = n[1]
                for desc, start, hl, hd in heads(inner, f"inside {p}: "):
                    yield (desc, encode(replaced(root, p, ["bstr", inner[:start] + hd + inner[start + hl:], None])))
    elif cls == "byte-edit":
        for i in range(len(b)):
            for name, v in (("00", 0), ("FF", 0xFF), ("^01", b[i] ^ 1), ("^80", b[i] ^ 0x80), ("+major", (b[i] + 0x20) & 0xFF)):
                if v != b[i]:
                    yield (f"byte {i} {name}", b[:i] + bytes([v]) + b[i + 1:])


def nesting_inputs():
    out = []
    base = gen.minimal()
    mb = impl.tool_create(base)
    root = deep(mb)
    for d in (10, 50, 100, 150, 200, 400, 1000, 10000):
        # run-sequence in run-sequence ... (bstr in bstr), try-each, arrays, tags, recipients
        seq = enc([14, 0])
        for _ in range(d):
            seq = enc([32, seq])
        out.append((f"run-sequence nested {d} deep", _with_validate(mb, seq)))
        seq = enc([14, 0])
        for _ in range(d):
            seq = enc([15, [seq]])
        out.append((f"try-each nested {d} deep", _with_validate(mb, seq)))
        out.append((f"array nested {d} deep in the envelope", b"\xd8\x6b" + b"\x81" * d + b"\x00"))
        out.append((f"tags nested {d} deep", b"\xd8\x6b" * d + b"\xa0"))
        b = b"\x00"
        for _ in range(min(d, 2000)):
            b = enc(b)
        out.append((f"bstr-in-bstr {min(d, 2000)} deep as the manifest", enc(Tag(107, {2: enc([enc([-16, b""])]), 3: Raw(b)}))))
        r = enc([b"", {1: -6}, None])
        for _ in range(d):
            r = enc([b"", {1: -6}, None, [Raw(r)]])
        ei = enc(enc(Tag(96, [enc({1: 3}), {5: b"\x00" * 12}, None, [Raw(r)]])))
        out.append((f"recipients nested {d} deep", _with_validate(mb, enc([20, {19: Raw(ei)}]))))
    return out


def amplification_inputs():
    """CBOR value sharing (tags 28/29): tiny inputs that decode to exponentially large or cyclic values."""
    out = []
    base = impl.tool_create(gen.minimal())
    env, raw = impl.envelope_members(base)

    def laughs(depth):
        items = [enc(Tag(28, [b"x" * 8]))]
        for i in range(depth):
            items.append(enc(Tag(28, [Tag(29, i), Tag(29, i)])))
        return refcbor.head(4, len(items)) + b"".join(items)
    cyc = bytes.fromhex("d81c81d81d00")         # 28([29(0)]): an array that contains itself
    for name, payload in [(f"shared-reference expansion depth {d}", laughs(d)) for d in (8, 12, 15, 18)] + [("self-referencing array", cyc)]:
        man = refcbor.to_py(refcbor.decode(env.get(3).value))
        out.append((f"{name} as an unknown envelope member", enc(Tag(107, {2: env.get(2).value, 3: env.get(3).value, 99: Raw(payload)}))))
        out.append((f"{name} as the envelope content", b"\xd8\x6b" + payload))
        m2 = dict(man)
        m2[4] = Raw(payload)
        out.append((f"{name} as suit-reference-uri", enc(Tag(107, {2: env.get(2).value, 3: enc(m2)}))))
        m3 = dict(man)
        m3[7] = enc(Raw(refcbor.head(4, 2) + enc(20) + enc({21: Raw(payload)})))
        out.append((f"{name} as a parameter value", enc(Tag(107, {2: env.get(2).value, 3: enc(m3)}))))
        out.append((f"{name} as an integrated payload", enc(Tag(107, {2: env.get(2).value, 3: env.get(3).value, "#p": Raw(payload)}))))
    return out


def run_amplification(case, agg):
    for desc, m in amplification_inputs():
        if case.get("only") and case["only"] != desc:
            continue
        cls, fp, text = parse_outcome(m)
        if fp:
            kind = "shared-reference-expansion" if "expansion" in desc else "self-reference"
            agg.viol(f"{fp}/{kind}", f"{desc} ({len(m)} bytes): {text}", artefacts={"input": m.hex()}, case={"only": desc})
        else:
            agg.ok(h8(m), cls, sample={"input": desc, "bytes": len(m), "outcome": cls} if "depth 18 as an unknown" in desc else None)


def large_cases(tier):
    sizes = [16, 64] if tier == "quick" else [16, 64, 256]
    return [{"kind": k, "kib": n} for k in ("bignum-at-every-integer", "long-strings", "wide-containers", "many-payloads", "stringref") for n in sizes]


def run_large(case, agg):
    """inputs of tens to hundreds of KiB: time must stay within max(5 s, 2 ms/byte), memory within 64 MiB + 256 x length."""
    n = case["kib"] * 1024
    b = seed_bytes("quick", "s1-everything")
    root = deep(b)
    inputs = []
    if case["kind"] == "bignum-at-every-integer":
        big = refcbor.head(6, 2) + enc(bytes([0x80]) + b"\x00" * (n - 1))           # 2(h'80 00..'): 1 << (8n-1)
        big1 = refcbor.head(6, 2) + enc(b"\xff" * n)
        for p in paths(root):
            node = get(root, p)
            if node[0] == "raw" and node[1] and (node[1][0] >> 5) in (0, 1):
                inputs.append((f"integer at {p} -> bignum of {case['kib']} KiB (top bit)", encode(replaced(root, p, ["raw", big]))))
                if len(inputs) % 7 == 0:
                    inputs.append((f"integer at {p} -> bignum of {case['kib']} KiB (all ones)", encode(replaced(root, p, ["raw", big1]))))
    elif case["kind"] == "long-strings":
        for p in paths(root):
            node = get(root, p)
            if node[0] == "raw" and node[1] and (node[1][0] >> 5) == 3:
                inputs.append((f"text at {p} -> {case['kib']} KiB", encode(replaced(root, p, ["raw", enc("t" * n)]))))
            elif node[0] == "bstr" and node[2] is None:
                inputs.append((f"bytes at {p} -> {case['kib']} KiB", encode(replaced(root, p, ["bstr", b"\x00" * n, None]))))
    elif case["kind"] == "wide-containers":
        for p in paths(root):
            node = get(root, p)
            if node[0] == "array" and len(inputs) < 40:
                inputs.append((f"array at {p} -> {n} small integers", encode(replaced(root, p, ["raw", refcbor.head(4, n) + b"\x01" * n]))))
                inputs.append((f"array at {p} -> {n // 2} empty arrays", encode(replaced(root, p, ["raw", refcbor.head(4, n // 2) + b"\x80" * (n // 2)]))))
            elif node[0] == "map" and len(inputs) < 40:
                body = b"".join(enc(1000 + i) + b"\x00" for i in range(n // 4))
                inputs.append((f"map at {p} -> {n // 4} unknown integer keys", encode(replaced(root, p, ["raw", refcbor.head(5, n // 4) + body]))))
    elif case["kind"] == "many-payloads":
        env, raw = impl.envelope_members(b)
        k = n // 8
        body = enc(2) + raw[2] + enc(3) + raw[3] + b"".join(enc(f"#{i:05d}") + b"\x40" for i in range(k))
        inputs.append((f"{k} integrated payloads", b"\xd8\x6b" + refcbor.head(5, 2 + k) + body))
    elif case["kind"] == "stringref":
        # tag 256 (stringref namespace) around an envelope whose payloads are tag-25 references to one long byte string
        env, raw = impl.envelope_members(b)
        big = enc(b"\x5a" * (n * 3 // 4))
        k = 2000
        body = enc(2) + raw[2] + enc(3) + raw[3] + enc("#first") + big + b"".join(enc(f"#r{i:04d}") + refcbor.head(6, 25) + enc(3) for i in range(k))
        inputs.append((f"stringref: {k} references to one {n * 3 // 4 >> 10} KiB byte string",
                       refcbor.head(6, 256) + b"\xd8\x6b" + refcbor.head(5, 3 + k) + body))
        inputs.append((f"stringref inside the envelope tag: {k} references",
                       b"\xd8\x6b" + refcbor.head(6, 256) + refcbor.head(5, 3 + k) + body))
    ok = 0
    for i, (desc, m) in enumerate(inputs):
        if case.get("only") is not None and case["only"] != i:
            continue
        cls, fp, text = parse_outcome(m)
        if fp:
            agg.viol(f"{fp}/{case['kind']}", f"{desc} ({len(m)} bytes): {text}", case={**case, "only": i})
            return
        ok += 1
        agg.outcomes[cls] += 1
        agg.keys.add(h8(m))
    agg.evaluations += ok
    if inputs:
        agg.samples.append({"family": case["kind"], "KiB": case["kib"], "inputs": len(inputs), "first": inputs[0][0]})


def scaling_cases(tier):
    return [{"kind": k} for k in ("many-payloads", "many-unknown-members", "many-commands", "many-components", "many-text-entries", "bignum-policy", "long-uri")]


def _scaled_input(kind, n):
    b = seed_bytes("quick", "s1-everything")
    env, raw = impl.envelope_members(b)
    man = refcbor.to_py(refcbor.decode(env.get(3).value))
    if kind == "many-payloads":
        body = enc(2) + raw[2] + enc(3) + raw[3] + b"".join(enc(f"#{i:06d}") + b"\x41\x00" for i in range(n))
        return b"\xd8\x6b" + refcbor.head(5, 2 + n) + body
    if kind == "many-unknown-members":
        body = enc(2) + raw[2] + enc(3) + raw[3] + b"".join(enc(1000 + i) + b"\x00" for i in range(n))
        return b"\xd8\x6b" + refcbor.head(5, 2 + n) + body
    if kind == "many-commands":
        man[7] = refcbor.head(4, 2 * n) + enc(14) * 0 + b"".join(b"\x0e\x00" for _ in range(n))
        man[7] = enc(man[7])
    elif kind == "many-components":
        com = refcbor.to_py(refcbor.decode(man[3]))
        com[2] = Raw(refcbor.head(4, n) + enc([b"a"]) * n)
        man[3] = enc(com)
    elif kind == "bignum-policy":
        man[7] = enc(Raw(refcbor.head(4, 2) + enc(14) + refcbor.head(6, 2) + enc(bytes([0x80]) + b"\x00" * (8 * n - 1))))
    elif kind == "long-uri":
        man[4] = "u" * (8 * n)
    elif kind == "many-text-entries":
        tm = refcbor.head(5, 1) + enc("en") + refcbor.head(5, n) + b"".join(enc([enc(i)]) + b"\xa0" for i in range(n))
        return enc(Tag(107, {2: env.get(2).value, 3: env.get(3).value, 23: tm}))
    return enc(Tag(107, {2: env.get(2).value, 3: enc(man)}))


def run_scaling(case, agg):
    """time proportional to the input size: quadrupling the input must not multiply the CPU time by more than 10."""
    kind = case["kind"]
    n = 4096
    times = []
    for size in (n, 4 * n):
        m = _scaled_input(kind, size)
        best = None
        for _ in range(2):
            t0 = time.process_time()
            cls, fp, text = parse_outcome(m)
            dt = time.process_time() - t0
            best = dt if best is None else min(best, dt)
            if fp:
                agg.viol(f"{fp}/{kind}", f"{kind} x {size} ({len(m)} bytes): {text}")
                return
        times.append((size, len(m), best, cls))
    (n1, l1, t1, c1), (n4, l4, t4, c4) = times
    if t4 > 1.0 and t4 > 10 * max(t1, 0.02):
        agg.viol(f"C17:superlinear-time/{kind}", f"{kind}: {n1} items ({l1} bytes) parse in {t1:.2f} s CPU, {n4} items ({l4} bytes) in {t4:.2f} s - "
                 f"x{t4 / max(t1, 1e-9):.1f} for x{l4 / l1:.1f} input")
    else:
        agg.ok(h8("c17scale", kind), f"ok:scaling:{c4}", sample={"family": kind, "items": [n1, n4], "bytes": [l1, l4], "cpu_s": [round(t1, 3), round(t4, 3)]})


def tiny_cases(tier):
    out = [{"lo": 0, "hi": 256, "n": 1}]
    if tier == "thorough":
        out += [{"lo": a, "hi": a + 16, "n": 2} for a in range(0, 256, 16)]
    return out


def run_tiny(case, agg):
    """every one-byte input (thorough: every two-byte input) handed to the parser directly."""
    ok = 0
    for a in range(case["lo"], case["hi"]):
        for m in ([bytes([a])] if case["n"] == 1 else [bytes([a, b]) for b in range(256)]):
            cls, fp, text = parse_outcome(m)
            if fp:
                agg.viol(fp, f"whole input {m.hex()}: {text}", case={"lo": a, "hi": a + 1, "n": case["n"]})
                return
            ok += 1
            agg.outcomes[cls] += 1
    agg.evaluations += ok
    agg.notes["__disjoint_distinct__"] += ok
    if case["lo"] == 0:
        agg.samples.append({"tiny_inputs": f"{case['n']}-byte", "count": ok})


def _with_validate(envelope, seq_bytes):
    env, raw = impl.envelope_members(envelope)
    man = refcbor.to_py(refcbor.decode(env.get(3).value))
    man[7] = seq_bytes
    return enc(Tag(107, {2: env.get(2).value, 3: enc(man)}))


CLASSES = ["node-replace", "key-replace", "delete-duplicate", "truncate", "length-field", "byte-edit"]


def fault_cases(tier):
    out = []
    for name in seeds(tier):
        for cls in CLASSES:
            for part in range(16):
                out.append({"seed": name, "cls": cls, "part": part, "tier": tier})
    return out


def run_faults(case, agg):
    b = seed_bytes(case["tier"], case["seed"])
    n = ok = 0
    for i, (desc, m) in enumerate(mutations(b, case["cls"])):
        if i % 16 != case["part"]:
            continue
        if case.get("only") is not None and i != case["only"]:
            continue
        n += 1
        for simplified in ((False, True) if case["cls"] in ("node-replace", "key-replace", "delete-duplicate") else (False,)):
            cls, fp, text = parse_outcome(m, simplified)
            if fp:
                agg.viol(fp + ("/simplified-parser" if simplified else ""), f"seed {case['seed']}, {case['cls']}{' (simplified envelope parser)' if simplified else ''}: {desc}: {text}",
                         artefacts={"input": m.hex()[:4000]}, case={**case, "only": i})
            else:
                agg.evaluations += 1
                agg.outcomes[f"{cls}{':simplified' if simplified else ''}"] += 1
                agg.keys.add(h8(m, simplified))
    if case["part"] == 0 and n:
        agg.samples.append({"seed": case["seed"], "fault_class": case["cls"], "inputs_in_this_part": n})


def run_nesting(case, agg):
    for desc, m in nesting_inputs():
        if case.get("only") and case["only"] != desc:
            continue
        cls, fp, text = parse_outcome(m)
        if fp:
            agg.viol(fp + ("/deep-nesting" if "Recursion" in fp else ""), f"{desc} ({len(m)} bytes): {text}", case={"only": desc})
        else:
            agg.ok(h8(m), cls, sample={"input": desc, "bytes": len(m), "outcome": cls} if "150" in desc and "run-seq" in desc else None)


def plan(tier):
    return [
        CaseStage("single-faults", lambda: fault_cases(tier), run_faults, chunk=1, rule="six fault classes at every node/byte/head of every seed"),
        CaseStage("nesting", [{}], run_nesting, serial=True, rule="depth families 10..10^4 of six nesting constructs"),
        CaseStage("value-sharing", [{}], run_amplification, serial=True, rule="CBOR tags 28/29: expansion depth 8..18 and self reference at five positions"),
        CaseStage("large-values", lambda: large_cases(tier), run_large, chunk=1, rule="16/64 (thorough: 256) KiB bignums at every integer, long strings, wide containers, many payloads, stringref"),
        CaseStage("scaling", lambda: scaling_cases(tier), run_scaling, chunk=1, rule="7 families at n and 4n items: CPU time ratio must stay below 10"),
        CaseStage("tiny-inputs", lambda: tiny_cases(tier), run_tiny, chunk=1, rule="every 1-byte (thorough: every 2-byte) input"),
    ]
