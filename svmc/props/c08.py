"""C08 - symbolic names and registry codes are in one-to-one correspondence."""
from __future__ import annotations

import itertools
from collections.abc import Mapping

from .. import impl, refcbor, registry
from ..core import CaseStage, h8
from ..refcbor import enc, Raw, Tag

LEVEL = "exploration"
RULE = ("the vocabulary is finite and enumerated completely: every (key space, name) pair of the verifier's "
        "hand-written registry is encoded through the public from_obj/to_cbor of the node type of that space, the "
        "integer is read back with the verifier's CBOR reader and compared with the registry; the integer is fed "
        "back through from_cbor/to_obj and must render as the same name; codes are pairwise distinct per space; "
        "every name is placed in every other closed key space and must be refused with ValueError; every integer "
        "in -70000..300 outside the table must not decode to a name in any space; tags 107/18/96 and their "
        "neighbours. distinct = distinct (space, name | integer | foreign name) triples; non-trivial = the tool "
        "produced an encoding/decoding that was compared, or a refusal that was required")
ASSUMPTIONS = ["svmc/registry.py transcribes the registries correctly (trusted: my reading of the drafts / RFCs)"]
BOUNDS = {"quick": "complete vocabulary; unknown-code sweep -70000..300 in every space",
          "thorough": "same (the space is finite and already complete in quick)"}

DIG = {"suit-digest-algorithm-id": "cose-alg-sha-256", "suit-digest-bytes": "aa"}
UUID = {"raw": "00112233445566778899aabbccddeeff"}
MIN_MANIFEST = {"suit-manifest-version": 1, "suit-manifest-sequence-number": 0, "suit-common": {}}


def spaces():
    from suit_generator.suit import manifest as M, security as S, envelope as E
    seq = []
    return {
        "envelope": dict(kind="map", cls=E.SuitEnvelope, values={
            "suit-delegation": [], "suit-authentication-wrapper": {"SuitDigest": dict(DIG)},
            "suit-manifest": dict(MIN_MANIFEST), "suit-dependency-resolution": seq, "suit-payload-fetch": seq,
            "suit-install-legacy": seq, "suit-candidate-verification": seq, "suit-install": seq, "suit-text": {}}),
        "envelope-simplified": dict(kind="map", cls=E.SuitEnvelopeSimplified, values={
            "suit-delegation": [], "suit-authentication-wrapper": {"SuitDigest": dict(DIG)}, "suit-manifest": "a0",
            "suit-dependency-resolution": "80", "suit-payload-fetch": "80", "suit-install-legacy": "80", "suit-candidate-verification": "80",
            "suit-install": "80", "suit-text": "a0"}),
        "manifest": dict(kind="map", cls=M.SuitManifest, values={
            "suit-manifest-version": 1, "suit-manifest-sequence-number": 0, "suit-common": {},
            "suit-reference-uri": "u", "suit-manifest-component-id": ["a"], "suit-current-version": "1",
            "suit-validate": seq, "suit-load": seq, "suit-invoke": seq, "suit-dependency-resolution": seq,
            "suit-payload-fetch": seq, "suit-install-legacy": seq, "suit-candidate-verification": seq,
            "suit-install": seq, "suit-text": dict(DIG), "suit_uninstall": seq}),
        "common": dict(kind="map", cls=M.SuitCommon, values={
            "suit-dependencies": {}, "suit-components": [], "suit-shared-sequence": seq}),
        "dependency-metadata": dict(kind="map", cls=M.SuitDependencyMetadata, values={"suit-dependency-prefix": ["a"]}),
        "commands": dict(kind="tuple", cls=M.SuitCommandSequence, values={
            **{n: [] for n in registry.CONDITIONS},
            **{n: [] for n in registry.DIRECTIVES},
            "suit-directive-set-component-index": 0, "suit-directive-try-each": [],
            "suit-directive-set-parameters": {}, "suit-directive-override-parameters": {},
            "suit-directive-run-sequence": []}),
        "parameters": dict(kind="map", cls=M.SuitParameters, values={
            "suit-parameter-vendor-identifier": dict(UUID), "suit-parameter-class-identifier": dict(UUID),
            "suit-parameter-image-digest": dict(DIG), "suit-parameter-component-slot": 0,
            "suit-parameter-strict-order": True, "suit-parameter-soft-failure": True,
            "suit-parameter-image-size": {"raw": 0}, "suit-parameter-content": "aa",
            "suit-parameter-encryption-info": {"CoseEncryptTagged": {
                "protected": {"suit-cose-algorithm-id": "cose-alg-aes-gcm-256"}, "unprotected": {}, "ciphertext": None,
                "recipients": []}}, "suit-parameter-uri": "u",
            "suit-parameter-source-component": 0, "suit-parameter-invoke-args": {},
            "suit-parameter-device-identifier": dict(UUID),
            "suit-parameter-version": {"suit-condition-version-comparison-greater": "1"}}),
        "text-keys": dict(kind="map", cls=M.SuitTextLMap, values={n: "x" for n in registry.TEXT_KEYS}),
        "text-component-keys": dict(kind="map", cls=M.SuitTextComponentKeys, values={n: "x" for n in registry.TEXT_COMPONENT_KEYS}),
        "reporting-policy": dict(kind="bits", cls=M.SuitRepPolicy, values={n: None for n in registry.REPORTING}),
        "version-comparators": dict(kind="pair", cls=M.SuitParameterVersion, values={n: "1" for n in registry.VERSION_COMPARATORS}),
        "invoke-args": dict(kind="map", cls=M.SuitParameterInvokeArgs, values={"suit-synchronous-invoke": True, "suit-timeout": 0}),
        "cose-headers": dict(kind="map", cls=S.SuitHeaderMap, values={
            "suit-cose-algorithm-id": "cose-alg-es-256", "suit-cose-key-id": 1, "suit-cose-iv": "aa"}),
        "cose-algorithms": dict(kind="enum", cls=S.SuitcoseAlg, values={n: None for n in registry.COSE_ALGS}),
        "hash-algorithms": dict(kind="enum", cls=S.SuitCoseHashAlg, values={n: None for n in registry.HASH_ALGS}),
        "cwt-claims": dict(kind="map", cls=S.SuitCwtPayload, values={
            "Issuer": "x", "Subject": "x", "Audience": "x", "Expiration Time": 1, "Not Before": 1, "Issued At": 1,
            "CW ID": "aa"}),
    }


def _obj(sp, name, value):
    k = sp["kind"]
    if k == "map" or k == "pair":
        return {name: value}
    if k == "tuple":
        return [{name: value}]
    if k == "bits":
        return [name]
    return name


def encode_entry(sp, name, value):
    """-> (code Item value, raw bytes of the value item or None)"""
    data = sp["cls"].from_obj(_obj(sp, name, value)).to_cbor()
    it = refcbor.decode(data)
    k = sp["kind"]
    if k == "map":
        if it.kind != "map" or len(it.items) != 1:
            raise AssertionError(f"expected single-entry map, got {it.kind}/{it.value}")
        kk, vv = it.items[0]
        return kk, vv.raw(data)
    if k in ("tuple", "pair"):
        if it.kind != "array" or len(it.items) != 2:
            raise AssertionError(f"expected [code, argument], got {it.kind}/{it.value}")
        return it.items[0], it.items[1].raw(data)
    return it, None


def decode_entry(sp, code, valraw):
    k = sp["kind"]
    if k == "map":
        obj = sp["cls"].from_cbor(enc({code: Raw(valraw)})).to_obj()
        return list(obj.keys())
    if k == "pair":
        obj = sp["cls"].from_cbor(enc([code, Raw(valraw)])).to_obj()
        return list(obj.keys())
    if k == "tuple":
        obj = sp["cls"].from_cbor(enc([code, Raw(valraw)])).to_obj()
        return [kk for d in obj for kk in d.keys()]
    if k == "bits":
        return sp["cls"].from_cbor(enc(code)).to_obj()
    return [sp["cls"].from_cbor(enc(code)).to_obj()]


def run_forward(case, agg):
    sname, name = case["space"], case["name"]
    sp = spaces()[sname]
    want = registry.SPACES[sname][name]
    key = h8("fwd", sname, name)
    try:
        code_item, valraw = encode_entry(sp, name, sp["values"][name])
    except Exception as e:
        agg.viol(f"C08:encode-failed/{sname}", f"{sname}/{name}: {type(e).__name__}: {e}")
        return
    if code_item.kind not in ("uint", "nint") or code_item.value != want:
        agg.viol(f"C08:wrong-code/{sname}", f"{sname}/{name} encodes to {code_item.kind} {code_item.value!r}, registry says {want}")
        return
    try:
        names = decode_entry(sp, want, valraw if valraw is not None else b"")
    except Exception as e:
        agg.viol(f"C08:decode-failed/{sname}", f"{sname}: code {want} ({name}) does not decode: {type(e).__name__}: {e}")
        return
    if names != [name]:
        agg.viol(f"C08:wrong-name/{sname}", f"{sname}: code {want} renders as {names}, expected [{name!r}]")
        return
    agg.ok(key, "ok:roundtrip", sample={"space": sname, "name": name, "code": want})


def forward_cases():
    return [{"space": s, "name": n} for s, tbl in registry.SPACES.items() for n in tbl]


def run_distinct(case, agg):
    """Codes the tool assigns inside one space are pairwise distinct (checked on the tool's own encodings)."""
    sname = case["space"]
    sp = spaces()[sname]
    seen = {}
    for name in registry.SPACES[sname]:
        try:
            code_item, _ = encode_entry(sp, name, sp["values"][name])
        except Exception:
            continue
        c = code_item.value
        if c in seen:
            agg.viol(f"C08:shared-code/{sname}", f"{sname}: {name} and {seen[c]} both encode to {c}")
            return
        seen[c] = name
    agg.ok(h8("distinct", sname), f"ok:distinct={len(seen)}", nontrivial=len(seen) > 1)


def run_cross(case, agg):
    sname, foreign, fspace = case["space"], case["name"], case["from"]
    sp = spaces()[sname]
    key = h8("cross", sname, foreign)
    # the simplest valid value of the space it is placed in (any value of this space)
    for value in [next(iter(sp["values"].values())), spaces()[fspace]["values"][foreign]]:
        try:
            data = sp["cls"].from_obj(_obj(sp, foreign, value)).to_cbor()
        except ValueError:
            continue
        except Exception as e:
            # refused, although not with the documented error type; the exception-type contract belongs to C17
            agg.rej(key, f"refused:{type(e).__name__}", nontrivial=True)
            return
        agg.viol(f"C08:foreign-name-accepted/{sname}", f"{foreign} (of {fspace}) placed in {sname} was accepted and encoded as {data.hex()}")
        return
    agg.rej(key, "refused:ValueError", nontrivial=True, sample={"space": sname, "foreign": foreign})


OPEN_SPACES = ("envelope", "envelope-simplified", "text-keys")     # text keys / payload names are legal beside the members


def run_cross_second(case, agg):
    """the foreign name as a SECOND member beside a valid one (encode direction), and its code beside a valid member's
    code (decode direction): a closed key space refuses it wherever it stands"""
    sname, foreign, fspace = case["space"], case["name"], case["from"]
    sp = spaces()[sname]
    fsp = spaces()[fspace]
    key = h8("cross2", sname, foreign)
    vname, vval = next(iter(sp["values"].items()))
    fval = fsp["values"][foreign]
    k = sp["kind"]
    # encode
    for value in (vval, fval):
        obj = {vname: vval, foreign: value} if k in ("map", "pair") else [{vname: vval, foreign: value}] if k == "tuple" else [vname, foreign]
        try:
            data = sp["cls"].from_obj(obj).to_cbor()
        except Exception:
            continue
        agg.viol(f"C08:foreign-name-accepted-beside-valid/{sname}", f"{foreign} (of {fspace}) as a second member beside {vname} in {sname} was accepted; encoded as {data.hex()}")
        return
    # decode: the valid member's real encoding, then the foreign code
    fcode = registry.SPACES[fspace][foreign]
    if k in ("map", "tuple") and sname not in OPEN_SPACES and fcode not in registry.SPACES[sname].values():
        try:
            vcode, vraw = encode_entry(sp, vname, vval)
        except Exception as e:
            raise RuntimeError(f"harness: cannot encode {sname}/{vname}: {e}")
        for fraw in (enc(0), vraw):
            data = enc({vcode.value: Raw(vraw), fcode: Raw(fraw)}) if k == "map" else enc([vcode.value, Raw(vraw), fcode, Raw(fraw)])
            try:
                shown = sp["cls"].from_cbor(data).to_obj()
            except Exception:
                continue
            agg.viol(f"C08:foreign-code-accepted-beside-valid/{sname}", f"code {fcode} ({foreign} of {fspace}, not registered in {sname}) beside {vname} was accepted "
                     f"by parse and shown as {str(shown)[:120]}")
            return
    agg.rej(key, "refused", nontrivial=True, sample={"space": sname, "foreign": foreign, "beside": vname} if foreign == "suit-parameter-uri" and sname == "commands" else None)


def cross_second_cases():
    out = []
    for c in cross_cases():
        s, f, n = c["space"], c["from"], c["name"]
        if spaces_kind(s) not in ("map", "tuple", "pair", "bits"):
            continue
        out.append(c)
    return out


_KINDS = {}


def spaces_kind(s):
    if not _KINDS:
        _KINDS.update({k: v["kind"] for k, v in spaces().items()})
    return _KINDS[s]


def cross_cases():
    out = []
    for s, tbl in registry.SPACES.items():
        if s == "text-keys":
            continue   # not a closed key space: component identifiers (arbitrary text) are legal keys beside the text keys
        for f, ftbl in registry.SPACES.items():
            if f == s:
                continue
            for n in ftbl:
                if n in tbl:
                    continue
                out.append({"space": s, "name": n, "from": f})
    return out


def run_unknown(case, agg):
    sname = case["space"]
    sp = spaces()[sname]
    tbl = registry.SPACES[sname]
    known = set(tbl.values())
    allnames = set(tbl)
    n_ok = 0
    for i in range(case["lo"], case["hi"]):
        if i in known:
            continue
        if sp["kind"] == "bits" and i >= 0 and (i & ~sum(known)) == 0:
            continue   # a sum of known policy bits is a legitimate policy value
        try:
            names = decode_entry(sp, i, enc(0))
        except Exception:
            n_ok += 1
            continue
        named = [n for n in names if isinstance(n, str) and n in allnames]
        if named:
            agg.viol(f"C08:unknown-code-named/{sname}", f"{sname}: integer {i} is not in the registry but renders as {named}",
                     case={"space": sname, "lo": i, "hi": i + 1})
            return
        n_ok += 1
    agg.evaluations += n_ok
    agg.outcomes["ok:unknown-code-not-named"] += n_ok
    agg.notes["__disjoint_distinct__"] += n_ok


def unknown_cases(tier):
    out = []
    for s in registry.SPACES:
        for lo in range(-70000, 301, 2000):
            out.append({"space": s, "lo": lo, "hi": min(301, lo + 2000)})
    return out


ENV = {"SUIT_Envelope_Tagged": {
    "suit-authentication-wrapper": {
        "SuitDigest": dict(DIG),
        "SuitAuthentication0": {"CoseSign1Tagged": {"protected": {"suit-cose-algorithm-id": "cose-alg-es-256"},
                                                    "unprotected": {}, "payload": None, "signature": "abcd"}}},
    "suit-manifest": {**MIN_MANIFEST, "suit-install": [
        {"suit-directive-override-parameters": {"suit-parameter-encryption-info": {"CoseEncryptTagged": {
            "protected": {"suit-cose-algorithm-id": "cose-alg-aes-gcm-256"}, "unprotected": {"suit-cose-iv": "00" * 12},
            "ciphertext": None,
            "recipients": [{"protected": {}, "unprotected": {"suit-cose-algorithm-id": "cose-alg-direct"}, "ciphertext": None}]}}}}]}}}


def _locate_tags(data):
    """-> dict name -> (tag number, offset of the tag head, list of bstr wrappers to re-wrap)."""
    top = refcbor.decode(data)
    out = {"SUIT_Envelope_Tagged": (top.value if top.kind == "tag" else None, top)}
    env = top.items[0]
    auth = refcbor.decode(env.get(2).value)
    blk = refcbor.decode(auth.items[1].value)
    out["CoseSign1Tagged"] = (blk.value if blk.kind == "tag" else None, blk)
    man = refcbor.decode(env.get(3).value)
    inst = refcbor.decode(man.get(20).value)
    params = inst.items[1]
    ei = refcbor.decode(params.get(19).value)
    out["CoseEncryptTagged"] = (ei.value if ei.kind == "tag" else None, ei)
    return out


def run_tags(case, agg):
    import copy
    from suit_generator.suit.envelope import SuitEnvelopeTagged
    from suit_generator.exceptions import SUITError
    which = case["tag"]
    want = registry.TAGS[which]
    try:
        data = SuitEnvelopeTagged.from_obj(copy.deepcopy(ENV)).to_cbor()
        tags = _locate_tags(data)
    except Exception as e:
        agg.viol("C08:tag/encode-failed", f"{type(e).__name__}: {e}")
        return
    if tags[which][0] != want:
        agg.viol(f"C08:tag/{which}", f"{which} is marked with tag {tags[which][0]}, expected {want}")
        return
    # reverse direction: the right tag parses and renders under the same name, neighbours are refused
    alt = case["alt"]
    py = refcbor.to_py(refcbor.decode(data))

    def rebuild(tagno):
        envm = dict(py.value)
        if which == "SUIT_Envelope_Tagged":
            return enc(Tag(tagno, envm))
        if which == "CoseSign1Tagged":
            auth = refcbor.to_py(refcbor.decode(envm[2]))
            blk = refcbor.to_py(refcbor.decode(auth[1]))
            auth[1] = enc(Tag(tagno, blk.value))
            envm[2] = enc(auth)
            return enc(Tag(107, envm))
        man = refcbor.to_py(refcbor.decode(envm[3]))
        inst = refcbor.to_py(refcbor.decode(man[20]))
        ei = refcbor.to_py(refcbor.decode(inst[1][19]))
        inst[1][19] = enc(Tag(tagno, ei.value))
        man[20] = enc(inst)
        envm[3] = enc(man)
        return enc(Tag(107, envm))

    if rebuild(want) != data:
        raise AssertionError("harness: rebuild with the correct tag does not reproduce the tool's bytes")
    mutated = rebuild(alt)
    try:
        obj = SuitEnvelopeTagged.from_cbor(mutated).to_obj()
    except (ValueError, SUITError):
        agg.rej(h8("tag", which, alt), "refused", nontrivial=True, sample={"item": which, "tag_tried": alt})
        return
    except Exception as e:
        # refused with an internal error type: the exception-type contract belongs to C17 (finding D9a), not C08
        agg.rej(h8("tag", which, alt), f"refused:{type(e).__name__}", nontrivial=True)
        return
    if which in str(obj) and alt != want:
        agg.viol(f"C08:tag/wrong-tag-accepted/{which}", f"{which} carrying tag {alt} was parsed and rendered as {which}")
    else:
        agg.ok(h8("tag", which, alt), "ok:not-rendered-under-name", nontrivial=True)


def tag_cases():
    out = []
    for t, n in registry.TAGS.items():
        for alt in sorted({n - 1, n + 1, 0, 1, 24, 255, 256, 18, 96, 107, 98, 16, 17} - {n}):
            out.append({"tag": t, "alt": alt})
    return out


def run_pseudo(case, agg):
    """Integrated payloads / dependencies: flattened under their own text keys, classified back on parse."""
    from suit_generator.suit.envelope import SuitEnvelopeTagged
    import copy
    which = case["which"]
    base = {"SUIT_Envelope_Tagged": {"suit-authentication-wrapper": {"SuitDigest": dict(DIG)}, "suit-manifest": dict(MIN_MANIFEST)}}
    child = SuitEnvelopeTagged.from_obj(copy.deepcopy(base)).to_cbor()
    val = child.hex() if which == "suit-integrated-dependencies" else "0102"
    d = copy.deepcopy(base)
    d["SUIT_Envelope_Tagged"][which] = {"#x": val}
    try:
        data = SuitEnvelopeTagged.from_obj(d).to_cbor()
        env = refcbor.decode(data).items[0]
        v = env.get("#x")
        if v is None or v.kind != "bstr" or v.value != bytes.fromhex(val):
            agg.viol("C08:pseudo-member-encoding", f"{which}: member '#x' not found as a byte string in {data.hex()[:200]}")
            return
        if any(isinstance(k, int) and k < 0 for k in env.keys()):
            agg.viol("C08:pseudo-member-encoding", f"{which}: pseudo member code leaked into the envelope: {env.keys()}")
            return
        back = SuitEnvelopeTagged.from_cbor(data).to_obj()["SUIT_Envelope_Tagged"]
    except Exception as e:
        agg.viol("C08:pseudo-member-failed", f"{which}: {type(e).__name__}: {e}")
        return
    if which not in back or list(back[which].keys()) != ["#x"]:
        agg.viol("C08:pseudo-member-classification", f"{which}: parse renders members {list(back.keys())}")
        return
    agg.ok(h8("pseudo", which), "ok:pseudo", sample={"member": which})

# -- objects of the model are independent of each other ----------------------------------------------------------
def _enum_classes():
    """every enumeration class of the tool's object model (driver only: which classes exist; what they must do is
    measured on fresh objects before anything is modified)"""
    import importlib, pkgutil
    import suit_generator.suit as pkg
    from suit_generator.suit.types.common import SuitEnum
    for m in pkgutil.walk_packages(pkg.__path__, pkg.__name__ + "."):
        try:
            importlib.import_module(m.name)
        except Exception:
            pass
    out, todo = [], [SuitEnum]
    while todo:
        c = todo.pop()
        for sc in c.__subclasses__():
            todo.append(sc)
            if getattr(getattr(sc, "_metadata", None), "children", None):
                out.append(sc)
    return sorted(set(out), key=lambda c: c.__module__ + "." + c.__qualname__)


def enum_mut_cases():
    return [{"cls": i} for i in range(len(_enum_classes()))]


def run_enum_mut(case, agg):
    """for every enumeration class and every ordered pair (A, B) of its names: an object decoded from A's code (or built
    from A's name) is switched to B through the model's value setter - as the project's own tests do before re-computing
    digests; the switched object encodes B, and a NEW object decoded from A's code / built from A's name is still A"""
    import cbor2
    cls = _enum_classes()[case["cls"]]
    kids = list(cls._metadata.children)
    base = []
    for k in kids:                       # measured before anything is modified
        try:
            o = cls.from_obj(k.name)
            enc = o.to_cbor()
            base.append((k.name, enc, cls.from_cbor(enc).to_obj()))
        except Exception as e:
            agg.viol(f"C08:enum/{type(e).__name__}", f"{cls.__name__}: name {k.name!r}: {type(e).__name__}: {e}")
            return
    for a, enc_a, back_a in base:
        if back_a != a:
            agg.viol("C08:enum/name-code-name", f"{cls.__name__}: {a!r} -> {enc_a.hex()} -> {back_a!r}")
            return
    n = 0
    for (a, enc_a, _), (b, enc_b, _) in itertools.permutations(base, 2):
        for how in ("decoded", "built"):
            try:
                x = cls.from_cbor(enc_a) if how == "decoded" else cls.from_obj(a)
                x.value = b
                got_x = x.to_cbor()
                y1, y2 = cls.from_cbor(enc_a), cls.from_obj(a)
                res = (y1.to_obj(), y1.to_cbor(), y2.to_obj(), y2.to_cbor())
            except Exception as e:
                agg.viol(f"C08:enum-object-shared/{type(e).__name__}", f"{cls.__name__}: {how} {a!r} switched to {b!r}: {type(e).__name__}: {e}")
                return
            if got_x != enc_b:
                agg.viol("C08:enum-object-shared/switch-ignored", f"{cls.__name__}: an object {how} as {a!r} and switched to {b!r} encodes {got_x.hex()}, {b!r} is {enc_b.hex()}")
                return
            if res != (a, enc_a, a, enc_a):
                agg.viol("C08:enum-object-shared", f"{cls.__name__}: after an object {how} as {a!r} was switched to {b!r}, a NEW object for code {enc_a.hex()} / name {a!r} "
                         f"renders {res[0]!r} / encodes {res[1].hex()}; from the name: {res[2]!r} / {res[3].hex()}")
                return
            n += 1
    agg.evaluations += max(0, n - 1)
    agg.ok(h8("c08enum", cls.__name__), f"ok:enum-pairs", sample={"class": cls.__name__, "names": len(kids), "ordered_pairs_x2": n} if case["cls"] < 2 else None)


def _mutate_leaves(o, seen, depth=0):
    """switch every enumeration / integer / string leaf reachable from a parsed object to another value; -> count"""
    from suit_generator.suit.types.common import SuitEnum, SuitInt, SuitBstr, SuitTstr, SuitObject
    if id(o) in seen or depth > 60:
        return 0
    seen.add(id(o))
    n = 0
    if isinstance(o, SuitEnum):
        names = [c.name for c in o._metadata.children]
        if o.value in names and len(names) > 1:
            o.value = names[(names.index(o.value) + 1) % len(names)]
            return 1
        return 0
    if isinstance(o, SuitObject) and type(getattr(o, "value", None)) is int and isinstance(o, SuitInt):
        o.value = o.value + 1
        return 1
    if isinstance(o, SuitObject) and isinstance(o, (SuitBstr, SuitTstr)) and isinstance(getattr(o, "value", None), (bytes, str)):
        o.value = o.value + (b"\x5a" if isinstance(o.value, bytes) else "Z")
        return 1
    if isinstance(o, (list, tuple)):
        for x in o:
            n += _mutate_leaves(x, seen, depth + 1)
    elif isinstance(o, Mapping):
        for x in list(o.values()):
            n += _mutate_leaves(x, seen, depth + 1)
        for x in list(o.keys()):
            if not isinstance(x, (str, int, bytes, type)):
                n += _mutate_leaves(x, seen, depth + 1)
    elif hasattr(o, "__dict__") and not isinstance(o, type):
        for x in list(vars(o).values()):
            n += _mutate_leaves(x, seen, depth + 1)
    elif type(o).__name__ == "CBORTag":
        n += _mutate_leaves(o.value, seen, depth + 1)
    return n


def run_parsed_mut(case, agg):
    """parse an envelope, switch EVERY enumeration, integer and string leaf of the parsed object tree to another value
    (the caller owns that object), then parse the same bytes again: same names, same bytes as the first time"""
    import copy
    from ..props import c03
    from suit_generator.suit.envelope import SuitEnvelopeTagged
    name = case["seed"]
    desc = c03.seeds()[name]
    try:
        b = impl.tool_create(copy.deepcopy(desc))
        first = SuitEnvelopeTagged.from_cbor(b)
        first_obj = first.to_obj()
        first_bytes = first.to_cbor()
        built = SuitEnvelopeTagged.from_obj(copy.deepcopy(desc))
        n = _mutate_leaves(first, set()) + _mutate_leaves(built, set())
        second = SuitEnvelopeTagged.from_cbor(b)
        second_obj, second_bytes = second.to_obj(), second.to_cbor()
        again = impl.tool_create(copy.deepcopy(desc))
    except Exception as e:
        agg.viol(f"C08:parsed-object-mutation/{type(e).__name__}", f"seed {name!r}: {type(e).__name__}: {str(e)[:300]}")
        return
    if n < 5:
        agg.viol("C08:parsed-object-mutation/harness", f"seed {name!r}: only {n} leaves of the object model could be reached (object model changed?)")
        return
    if first_bytes != b or second_bytes != b or second_obj != first_obj or again != b:
        what = [w for w, bad in (("second parse renders other names/values", second_obj != first_obj), ("second parse re-encodes to other bytes", second_bytes != b),
                                 ("creating the description again gives other bytes", again != b), ("first parse does not re-encode to the input", first_bytes != b)) if bad]
        agg.viol("C08:parsed-object-mutation", f"seed {name!r}: after {n} leaves of an earlier parsed / built object were switched: {'; '.join(what)}")
        return
    agg.ok(h8("c08pm", name), "ok:parsed-object-mutation", sample={"seed": name, "leaves_switched": n})


RULE += ". Further stages: " + 'object independence - for every enumeration class and every ordered pair of names, switching one decoded / built object leaves what a new object renders and encodes unchanged; every leaf of a parsed and a built envelope object switched, then the same bytes parsed again'


def plan(tier):
    return [
        CaseStage("forward-and-back", forward_cases, run_forward, rule="every (space, name): name->code and code->name"),
        CaseStage("distinct-codes", [{"space": s} for s in registry.SPACES], run_distinct, rule="pairwise distinct codes per space"),
        CaseStage("cross-placement", cross_cases, run_cross, rule="every name in every other closed key space"),
        CaseStage("cross-placement-beside-valid", cross_second_cases, run_cross_second,
                  rule="every foreign name as a second member beside a valid one (encode), every foreign code beside a valid member's code (decode)"),
        CaseStage("unknown-codes", lambda: unknown_cases(tier), run_unknown, chunk=1, rule="every integer -70000..300 outside the table, every space"),
        CaseStage("enum-objects-independent", enum_mut_cases, run_enum_mut, chunk=1,
                  rule="every enumeration class x every ordered pair of names x {decoded, built}: switching one object does not change what a new object renders / encodes"),
        CaseStage("parsed-object-mutation", [{"seed": s} for s in ("minimal", "payloads", "severed", "severed+payloads", "dependency", "typical")], run_parsed_mut, chunk=1,
                  rule="6 envelopes: every enum/int/string leaf of a parsed and of a built object switched, then the same bytes parsed and the same description created again"),
        CaseStage("tags", tag_cases, run_tags, rule="tags 107/18/96 and neighbouring tag numbers"),
        CaseStage("pseudo-members", [{"which": w} for w in registry.ENVELOPE_PSEUDO], run_pseudo, rule="integrated payloads/dependencies flattening"),
    ]
