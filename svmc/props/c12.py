"""C12 - MPI records and merged MPI areas have the exact device layout."""
from __future__ import annotations

import hashlib
import itertools
import os

from .. import refhex, refuuid
from ..core import CaseStage, BfsStage, fresh_dir, h8, seed_slice, tuplify

LEVEL = "model_checking"
RULE = ("generate: full product policies x vendor/class names x addresses x sizes, hex read back with the verifier's "
        "reader and compared with the reference 48-byte record + 0xFF fill; merge: breadth-first over placement "
        "histories (23 placements: 8 aligned, 7 half-shifted, below/straddling/after the area, one byte over either border, one byte inside either border) against a byte-array "
        "reference with overlap and bounds detection, plus all 2^8 subsets of aligned placements; states = distinct "
        "placement multisets reached; non-trivial = output compared or refusal compared with the reference")
ASSUMPTIONS = ["svmc/refhex.py and svmc/refuuid.py are correct (self-tested)", "hashlib SHA-1/SHA-256"]
BOUNDS = {"quick": "generate full product; generate histories depth<=2; merge histories depth<=2, 2^8 aligned subsets x 3 area addresses",
          "thorough": "generate full product; generate histories depth<=3; merge histories depth<=4 (one-directory histories depth<=4), mixed-size triples, 2^8 subsets each + every single faulty placement"}

NAMES = ["nordicsemi.com", "", "a", "nRF54H20_sample_root", "zażółć.example", "xY" * 150, "MixedCase.Example"]
ADDRS = [0, 0x10, 0xFFD0, 0x0E1FE000, 0x00FFFFF0, 2**32 - 48]
SIZES = [48, 49, 64, 256, 4096]
SIGV = [None, "update", "update-and-boot"]


def _mpi():
    from suit_generator import cmd_mpi
    return cmd_mpi


def ref_record(vendor, cls, dp, iu, sv):
    return (bytes([1, 2 if dp else 1, 2 if iu else 1, {None: 1, "update": 2, "update-and-boot": 3}[sv]]) + b"\xff" * 12
            + refuuid.vid(vendor) + refuuid.cid(vendor, cls))


def gen_cases(tier):
    out = []
    i = 0
    for dp, iu, sv in itertools.product((False, True), (False, True), SIGV):
        for v, c in itertools.product(range(len(NAMES)), repeat=2):
            for a in ADDRS:
                for s in SIZES:
                    if a + s > 2**32:
                        continue
                    out.append({"dp": dp, "iu": iu, "sv": sv, "v": v, "c": c, "addr": a, "size": s, "i": i})
                    i += 1
    return out


def run_gen(case, agg):
    m = _mpi()
    v, c = NAMES[case["v"]], NAMES[case["c"]]
    key = h8("gen", {k: case[k] for k in ("dp", "iu", "sv", "v", "c", "addr", "size")})
    with fresh_dir("c12") as d:
        out = os.path.join(d, "mpi.hex")
        if case["i"] % 3 == 0:
            from .. import impl
            impl.prefill(out)
        try:
            if seed_slice(case["i"], 7):
                m.main(mpi="generate", output_file=out, vendor_name=v, class_name=c, address=case["addr"], size=case["size"],
                       downgrade_prevention_enabled=case["dp"], independent_updates=case["iu"], signature_verification=case["sv"])
            else:
                m.MpiGenerator.generate(out, v, c, case["addr"], case["size"], case["dp"], case["iu"], case["sv"])
            mem = refhex.read_hex_file(out)
        except refhex.HexError as e:
            agg.viol("C12:generate/malformed-hex", f"{case}: {e}")
            return
        except Exception as e:
            agg.viol(f"C12:generate/crash/{type(e).__name__}", f"{case}: {e}")
            return
    rec = ref_record(v, c, case["dp"], case["iu"], case["sv"]).ljust(case["size"], b"\xff")
    want = {case["addr"] + i: b for i, b in enumerate(rec)}
    if mem != want:
        got = refhex.regions(mem)
        field = "extent"
        if len(got) == 1 and got[0][0] == case["addr"] and len(got[0][1]) == len(rec):
            g = got[0][1]
            idx = next(i for i in range(len(rec)) if g[i] != rec[i])
            field = ("version" if idx == 0 else "policy" if idx < 4 else "reserved" if idx < 16 else
                     "vendor-uuid" if idx < 32 else "class-uuid" if idx < 48 else "fill")
        agg.viol(f"C12:generate/{field}", f"{case}: got {[(hex(a), b[:48].hex(), len(b)) for a, b in got][:2]} "
                 f"expected {hex(case['addr'])}: {rec[:48].hex()} len {len(rec)}")
    else:
        agg.ok(key, "ok", sample={"vendor": v[:20], "class": c[:20], "addr": hex(case["addr"]), "size": case["size"],
                                  "policy": [case["dp"], case["iu"], case["sv"]]})


# -- generate histories: the same output path written again and again -----------------------------------
GEN_OPS = [(a, s, v, c, pol) for a in (0x1000, 0x2000, 0) for s in (48, 64)
           for v, c in (("nordicsemi.com", "nRF54H20_sample_root"), ("acme.example", "cls"))
           for pol in ((False, False, None), (True, True, "update-and-boot"))]


def genhist_init():
    return [((), ("start",))]


def genhist_step(hist, agg, expand):
    """replays the whole history of generate calls on ONE output path (the last call is the new step); the file must
    be the reference record of the last call, whatever was written there before"""
    m = _mpi()
    hist = tuplify(hist)
    if hist:
        with fresh_dir("c12gh") as d:
            out = os.path.join(d, "mpi.hex")
            try:
                for n, i in enumerate(hist):
                    a, s, v, c, (dp, iu, sv) = GEN_OPS[i]
                    if n % 2:
                        m.main(mpi="generate", output_file=out, vendor_name=v, class_name=c, address=a, size=s,
                               downgrade_prevention_enabled=dp, independent_updates=iu, signature_verification=sv)
                    else:
                        m.MpiGenerator.generate(out, v, c, a, s, dp, iu, sv)
                mem = refhex.read_hex_file(out)
            except refhex.HexError as e:
                agg.viol("C12:generate-history/malformed-hex", f"history {[GEN_OPS[i][:4] for i in hist]}: {e}")
                return []
            except Exception as e:
                agg.viol(f"C12:generate-history/crash/{type(e).__name__}", f"history {[GEN_OPS[i][:4] for i in hist]}: {e}")
                return []
        a, s, v, c, (dp, iu, sv) = GEN_OPS[hist[-1]]
        rec = ref_record(v, c, dp, iu, sv).ljust(s, b"\xff")
        if mem != {a + k: b for k, b in enumerate(rec)}:
            agg.viol("C12:generate-history/stale-output", f"history {[(hex(GEN_OPS[i][0]),) + GEN_OPS[i][1:4] for i in hist]} on one output path: file holds "
                     f"{[(hex(x), len(b)) for x, b in refhex.regions(mem)][:3]}, the last call asked for {hex(a)}+{s}")
            return []
        agg.ok(h8("gh", hist), f"ok:depth{len(hist)}", sample={"history": [list(GEN_OPS[i][:4]) for i in hist]} if hist == (3, 12) else None)
    if not expand:
        return []
    return [(f"gen:{i}", hist + (i,), h8("gh", hist + (i,))) for i in range(len(GEN_OPS))]


# -- merge -------------------------------------------------------------------------------------------
SLOT = 48
NSLOT = 8
AREA = SLOT * NSLOT
AREA_ADDRS = [0x1000, 0xFF40, 0x0E1FE000, 0]
PLACEMENTS = ([("al", k * SLOT) for k in range(NSLOT)] + [("hs", k * SLOT + SLOT // 2) for k in range(NSLOT - 1)]
              + [("below", -SLOT), ("lo-straddle", -SLOT // 2), ("hi-straddle", AREA - SLOT // 2), ("after", AREA),
                 ("lo-by-one-byte", -1), ("hi-by-one-byte", AREA - SLOT + 1), ("shift+1", 1), ("shift-1", AREA - SLOT - 1)])


def rec_bytes(tag, n=SLOT):
    return bytes(((tag * 37 + i * 11) % 254) + 1 for i in range(n))   # never 0xFF so fill is distinguishable


def _ol(p):
    """a placement is an offset (a record of SLOT bytes) or (offset, length)"""
    return (p, SLOT) if isinstance(p, int) else (p[0], p[1])


def ref_merge(base, placements, salt=0):
    """placements: list of offsets. returns expected bytes or None (reject)."""
    area = bytearray(b"\xff" * AREA)
    used = set()
    for n, pl in enumerate(placements):
        off, ln = _ol(pl)
        if off < 0 or off + ln > AREA:
            return None
        rng = set(range(off, off + ln))
        if used & rng:
            return None
        used |= rng
        area[off:off + ln] = rec_bytes(n + salt, ln)
    return bytes(area) + hashlib.sha256(bytes(area)).digest()


# input file names a project may well use: characters that mean something to a shell, to glob, to argparse or to a URL parser
ODD_NAMES = ["mpi_app[local].hex", "rad*.hex", "what?.hex", " r 2 .hex", "#r3.hex", "-r4.hex", "ré€5.hex", "r6.HEX", "r7.hex.bak", "{r8}.hex"]


def do_merge(m, base, offs, agg, key, label, via_main=False, none_files=False, repeat=None, workdir=None, salt=0):
    """-> False if a violation was reported.  workdir: an already used directory (same input and output paths as the
    previous merge of the history, other content)"""
    import contextlib
    if any(base + _ol(off)[0] < 0 for off in offs):
        agg.rej(key, "placement-below-address-zero-not-representable", nontrivial=False)
        return True
    with (fresh_dir("c12m") if workdir is None else contextlib.nullcontext(workdir)) as d:
        files = []
        for n, off in enumerate(offs):
            f = os.path.join(d, ODD_NAMES[(n + key) % len(ODD_NAMES)] if (key % 2 == 0 and workdir is None) else f"r{n}.hex")
            refhex.write_hex([(base + _ol(off)[0], rec_bytes(n + salt, _ol(off)[1]))], f)
            files.append(f)
        out = os.path.join(d, "merged.hex")
        if workdir is not None and os.path.exists(out):
            os.unlink(out)
        want = ref_merge(base, offs, salt)
        if repeat is not None:
            # the SAME input file named twice: it overlaps itself completely and must be rejected
            files = files + [files[repeat]]
            want = None
        if want is not None and len(offs) % 2:
            from .. import impl
            impl.prefill(out)
        farg = None if (none_files and not files) else files
        try:
            if via_main:
                m.main(mpi="merge", output_file=out, address=base, size=AREA, file=farg)
            else:
                m.MpiGenerator.merge(out, base, AREA, farg)
        except Exception as e:
            if want is None:
                if os.path.exists(out):
                    agg.viol("C12:merge/refusal-left-output", f"{label}: rejected ({type(e).__name__}) but output file exists")
                    return False
                agg.rej(key, f"refused:{type(e).__name__}", nontrivial=True)
                return True
            agg.viol(f"C12:merge/unexpected-refusal", f"{label}: valid placement set rejected: {type(e).__name__}: {e}")
            return False
        if want is None:
            agg.viol("C12:merge/invalid-accepted", f"{label}: overlapping or out-of-area input was merged without error")
            return False
        try:
            mem = refhex.read_hex_file(out)
        except refhex.HexError as e:
            agg.viol("C12:merge/malformed-hex", f"{label}: {e}")
            return False
    exp = {base + i: b for i, b in enumerate(want)}
    if mem != exp:
        got = refhex.regions(mem)
        what = "digest" if (len(got) == 1 and got[0][0] == base and got[0][1][:AREA] == want[:AREA]) else "area"
        agg.viol(f"C12:merge/{what}", f"{label}: regions {[(hex(a), len(b)) for a, b in got][:3]}; expected {hex(base)}+{len(want)}; "
                 f"tail got {got[0][1][-32:].hex() if got else ''} want {want[-32:].hex()}")
        return False
    agg.ok(key, f"ok:n={len(offs)}", sample={"base": hex(base), "offsets": list(offs)})
    return True


# -- merges in one process and one directory ---------------------------------------------------------------
D_SETS = [(0,), (SLOT,), (0, 2 * SLOT), (2 * SLOT, 0), (7 * SLOT,), (0, SLOT // 2), (AREA,), ()]


def mdir_init():
    return [((), ("start",))]


def mdir_step(hist, agg, expand):
    """a history of merges in one process and one directory: the input files keep their paths and are regenerated with
    other records at other offsets between the merges (an incremental build); each merge is judged like a first one"""
    m = _mpi()
    hist = tuplify(hist)
    if hist:
        with fresh_dir("c12d") as d:
            for n, i in enumerate(hist):
                label = f"merge {n + 1} of the history {[D_SETS[j] for j in hist[:n + 1]]} in one process, same input and output paths"
                if not do_merge(m, 0x1000, list(D_SETS[i]), agg, h8("c12d", hist[:n + 1]), label, via_main=bool(n % 2), workdir=d, salt=3 * n):
                    return []
    if not expand:
        return []
    return [(f"merge:{D_SETS[i]}", hist + (i,), h8("c12dh", hist + (i,))) for i in range(len(D_SETS))]


def merge_init():
    return [((("base", b),), ("base", b)) for b in AREA_ADDRS]


def merge_step(hist, agg, expand):
    m = _mpi()
    hist = tuplify(hist)
    base = hist[0][1]
    offs = [PLACEMENTS[i][1] for i in hist[1:]]
    key = h8("mhist", hist)
    do_merge(m, base, offs, agg, key, f"base={hex(base)} placements={[PLACEMENTS[i] for i in hist[1:]]}",
             via_main=seed_slice(key % 1000, 9), none_files=True)
    if not expand:
        return []
    # state canonical form: base + ordered placement history (record contents depend on position, so order matters)
    return [(f"place:{PLACEMENTS[i][0]}@{PLACEMENTS[i][1]}", hist + (i,), h8("m", hist + (i,))) for i in range(len(PLACEMENTS))]


# -- records of different sizes ------------------------------------------------------------------------------
def mixed_cases(tier):
    """every ordered pair (thorough: + the triples whose first two members are disjoint) of intervals from a grid: starts
    at multiples of 48 (+ two off-grid starts), lengths 1, 24, 48, 96, 192 and the whole area - one record enclosing,
    enclosed by, abutting, or sharing an end point with another, in both orders"""
    starts = [k * SLOT for k in range(NSLOT)] + [SLOT // 2, AREA - 1]
    lens = [1, SLOT // 2, SLOT, 2 * SLOT, 4 * SLOT, AREA]
    ivs = [(a, n) for a in starts for n in lens if a + n <= AREA + SLOT]
    out = []
    for i, a in enumerate(ivs):
        for j, b in enumerate(ivs):
            out.append({"base": AREA_ADDRS[(i + j) % 3], "offs": [a, b]})
    if tier == "thorough":
        small = [(a, n) for a, n in ivs if a % (2 * SLOT) == 0 and n in (1, SLOT, 2 * SLOT, AREA)]
        for a in small:
            for b in small:
                for c in small:
                    out.append({"base": 0x1000, "offs": [a, b, c]})
    return out


def subset_cases(tier):
    out = []
    for b in AREA_ADDRS:
        for mask in range(256):
            offs = [k * SLOT for k in range(NSLOT) if mask >> k & 1]
            out.append({"base": b, "offs": offs})
            if offs and mask % 5 == 0:
                out.append({"base": b, "offs": offs, "repeat": (mask // 5) % len(offs)})
            if tier == "thorough":
                for name, off in PLACEMENTS[NSLOT:]:
                    out.append({"base": b, "offs": offs + [off]})
    return out


def run_subset(case, agg):
    do_merge(_mpi(), case["base"], case["offs"], agg, h8("msub", case), f"{case}", repeat=case.get("repeat"))


# -- the real CLI (argument parsing: flags, address syntax, repeated --file) ------------------------------------

def cli_cases(tier):
    out = []
    for i, (dp, iu, sv) in enumerate(itertools.product((False, True), (False, True), SIGV)):
        out.append({"kind": "generate", "dp": dp, "iu": iu, "sv": sv, "addr": (4096, "0x1000", "0X1000", "0o10000")[i % 4], "size": ("48", "0x40")[i % 2],
                    "v": ("nordicsemi.com", "Acme Corp", "", " padded.example ")[i % 4], "c": ("nRF54H20_sample_root", "class with spaces", "", "trailing\t")[(i // 3) % 4]})
    for files in (0, 1, 3):
        for addr in ("8192", "0x2000"):
            out.append({"kind": "merge", "files": files, "addr": addr})
    return out


def run_cli(case, agg):
    from .. import impl
    with fresh_dir("c12cli") as d:
        out = os.path.join(d, "o.hex")
        if case["kind"] == "generate":
            args = ["mpi", "generate", "--output-file", out, "--vendor-name", case["v"], "--class-name", case["c"], "--address", str(case["addr"]), "--size", case["size"]]
            if case["dp"]:
                args.append("--downgrade-prevention-enabled")
            if case["iu"]:
                args.append("--independent-updates")
            if case["sv"]:
                args += ["--signature-verification", case["sv"]]
            rc, so, se = impl.cli(args, d)
            if rc != 0:
                agg.viol("C12:cli/generate-failed", f"{case}: rc={rc} {se[-300:]}")
                return
            mem = refhex.read_hex_file(out)
            size = int(case["size"], 0)
            rec = ref_record(case["v"], case["c"], case["dp"], case["iu"], case["sv"]).ljust(size, b"\xff")
            if mem != {0x1000 + i: b for i, b in enumerate(rec)}:
                agg.viol("C12:cli/generate-record", f"{case}: {[(hex(a), b[:48].hex()) for a, b in refhex.regions(mem)][:2]} expected 0x1000: {rec[:48].hex()}")
                return
        else:
            offs = [0, 96, 336][:case["files"]]
            args = ["mpi", "merge", "--output-file", out, "--address", case["addr"], "--size", str(AREA)]
            for n, off in enumerate(offs):
                f = os.path.join(d, f"r{n}.hex")
                refhex.write_hex([(0x2000 + off, rec_bytes(n))], f)
                args += ["--file", f]
            rc, so, se = impl.cli(args, d)
            if rc != 0:
                agg.viol("C12:cli/merge-failed", f"{case}: rc={rc} {se[-300:]}")
                return
            mem = refhex.read_hex_file(out)
            want = ref_merge(0x2000, offs)
            if mem != {0x2000 + i: b for i, b in enumerate(want)}:
                agg.viol("C12:cli/merge-area", f"{case}: regions {[(hex(a), len(b)) for a, b in refhex.regions(mem)][:3]} expected 0x2000+{len(want)}")
                return
    agg.ok(h8("c12cli", case), f"ok:cli:{case['kind']}", sample=case if case.get("files") == 3 or case.get("sv") == "update" else None)


RULE += ". Further stages: " + 'ordered pairs / triples of records of different lengths (1 byte .. the whole area - enclosing, enclosed, abutting)'


def plan(tier):
    return [
        CaseStage("generate", lambda: gen_cases(tier), run_gen, disjoint=True, rule="policies x names x addresses x sizes"),
        BfsStage("merge-histories", merge_init, merge_step, max_depth=2 if tier == "quick" else 4,
                 rule="placement histories over 23 placements x 3 area addresses"),
        BfsStage("generate-histories", genhist_init, genhist_step, max_depth=2 if tier == "quick" else 3,
                 rule="histories of generate calls (24 parameter tuples: 3 addresses x 2 sizes x 2 name pairs x 2 policies) on one output path"),
        BfsStage("merge-histories-one-directory", mdir_init, mdir_step, max_depth=2 if tier == "quick" else 4,
                 rule="histories of merges in one process and directory: 8 placement sets, input files regenerated under the same paths"),
        CaseStage("cli", lambda: cli_cases(tier), run_cli, rule="real CLI: 12 flag combinations x address/size syntax x names; merge with 0/1/3 --file"),
        CaseStage("merge-mixed-sizes", lambda: mixed_cases(tier), run_subset,
                  rule="ordered pairs (thorough: + triples) of records of different lengths (1 byte .. the whole area) on a grid of starts: enclosing / enclosed / abutting / sharing an end point"),
        CaseStage("merge-subsets", lambda: subset_cases(tier), run_subset, disjoint=True,
                  rule="all 2^8 subsets of aligned placements (+ each single faulty placement in thorough)"),
    ]
