"""C19 - NCS templates yield consistent dependency wiring for every image set."""
from __future__ import annotations

import itertools
import os

from .. import gen, impl, refcbor, refuuid, registry
from ..core import CaseStage, fresh_dir, h8, seed_slice

LEVEL = "exploration"
RULE = ("the configuration space is finite and enumerated completely: root template - 7 non-empty subsets of {radio, "
        "application, top} x 8 default/custom MPI name settings (root, app, rad) x 3 version settings {none, VERSION file "
        "through the real read_version_file, explicit APP_ROOT_*} x child-envelope variants {minimal, payload + severed "
        "members, signed} (quick: all children the same variant; thorough: all mixed assignments); top template - the "
        "same for its image set {secdom, sysctrl}. The context is assembled by the real glue (ncs/build.py "
        "read_configurations from --core strings with generated .config files, read_version_file, render_template), the "
        "rendered YAML goes through cmd_create.main. Oracle: the verifier's abstract interpreter walks every command "
        "sequence of the created envelope: component indices < declared components, dependency keys index CAND_MFST/"
        "INSTLD_MFST components, every fetched '#name' has a string-keyed member whose wrapped manifest hashes to the "
        "image digest in force, INSTLD_MFST class IDs = UUIDv5 of the configured names. child envelopes are enumerated "
        "variants (not sampled).")
ASSUMPTIONS = ["svmc/refcbor.py, svmc/refuuid.py, hashlib", "custom names are YAML plain-scalar-safe (DESIGN.md O2)"]
BOUNDS = {"quick": "root: 7 x 8 x 3 x 3 = 504 configurations; top: 3 x 3 = 9 configurations",
          "thorough": "root: + all mixed child-variant assignments (7 x 8 x 3 x up to 27); top: 3 x 9"}

IMAGES = ["radio", "application", "top"]
IMG_NAME = {"radio": "radio&img", "application": "app-core.v2", "top": "nordic_top", "secdom": "secdom_fw", "sysctrl": "sysctrl_fw"}
VARIANTS = ["minimal", "rich", "signed"]
DEFAULT_NAMES = {"root": ("nordicsemi.com", "nRF54H20_sample_root"), "app": ("nordicsemi.com", "nRF54H20_sample_app"),
                 "rad": ("nordicsemi.com", "nRF54H20_sample_rad")}
CUSTOM_NAMES = {"root": ("ACME-Devices.example.org", "Root-Class_1"), "app": ("App.Vendor&Co", "Tom's_app.A"), "rad": ("rad-vendor.io", "RAD<v2>_class")}
KCFG = {"root": "ROOT", "app": "APP_LOCAL_1", "rad": "RAD_LOCAL_1"}


def repo(*p):
    return os.path.join(os.environ["SVMC_REPO"], *p)


def child_envelope(name, variant, d):
    # the child's own wrapper algorithm differs from the sha-256 the templates ask for (rich: sha-512, signed: sha-384)
    desc = gen.child_env(seq=sum(map(ord, name)) % 200 + 1, alg={"minimal": "cose-alg-sha-256", "rich": "cose-alg-sha-512", "signed": "cose-alg-sha-384"}[variant])
    if variant in ("rich", "signed"):
        desc["SUIT_Envelope_Tagged"]["suit-manifest"]["suit-install"] = gen.digest("cose-alg-sha-256")
        desc["SUIT_Envelope_Tagged"]["suit-install"] = [{"suit-directive-write": []}]
        desc["SUIT_Envelope_Tagged"]["suit-integrated-payloads"] = {"#fw": "00112233"}
    b = impl.tool_create(desc)
    if variant == "signed":
        from .c07 import sign
        b = sign(b, d)
    return b


# -- the verifier's abstract interpreter of a manifest -------------------------------------------------

def text_of(part):
    """component part (bstr Item) -> text if it wraps a tstr, else None"""
    try:
        it = refcbor.decode(part.value)
        return it.value if it.kind == "tstr" else None
    except refcbor.CborError:
        return None


def interpret(envelope: bytes):
    """-> (problems, facts) facts = dict(components=[...], installed_class_ids=[...], fetched=[...])"""
    problems = []
    env, raw = impl.envelope_members(envelope)
    man = refcbor.decode(env.get(3).value)
    common = refcbor.decode(man.get(3).value)
    comps = common.get(2).items if common.get(2) is not None else []
    ncomp = len(comps)
    kinds = [text_of(c.items[0]) if c.items else None for c in comps]
    deps = common.get(1)
    if deps is not None:
        for k, _ in deps.items:
            if k.kind != "uint" or k.value >= ncomp:
                problems.append(("dependency-index", f"suit-dependencies key {k.value} does not index a declared component ({ncomp} declared)"))
            elif kinds[k.value] not in ("CAND_MFST", "INSTLD_MFST"):
                problems.append(("dependency-kind", f"dependency {k.value} is a {kinds[k.value]!r} component, not a candidate/installed manifest"))
    members = {k: env.get(k).value for k in raw if isinstance(k, str)}
    fetched = []

    def run(seq, state):
        items = seq.items
        for i in range(0, len(items) - 1, 2):
            code, arg = items[i].value, items[i + 1]
            if code == 12:
                if arg.kind == "uint":
                    idx = [arg.value]
                elif arg.kind == "array":
                    idx = [x.value for x in arg.items]
                else:
                    idx = list(range(ncomp))
                for x in idx:
                    if x >= ncomp:
                        problems.append(("component-index", f"set-component-index {x} but only {ncomp} components are declared"))
                state["cur"] = [x for x in idx if x < ncomp]
            elif code in (19, 20):
                for c in state["cur"]:
                    p = state["params"].setdefault(c, {})
                    for k, v in arg.items:
                        if code == 20 or k.value not in p:
                            p[k.value] = v
            elif code == 21 or code == 3:
                for c in state["cur"]:
                    p = state["params"].get(c, {})
                    uri = p.get(21)
                    if uri is not None and uri.kind == "tstr" and uri.value.startswith("#"):
                        if uri.value not in members:
                            problems.append(("fetch-without-member", f"component {c} fetches {uri.value!r} but the envelope has no such integrated member (has {sorted(members)})"))
                            continue
                        if code == 21:
                            fetched.append(uri.value)
                        dg = p.get(3)
                        if dg is not None:
                            d = refcbor.decode(dg.value)
                            alg, val = d.items[0].value, d.items[1].value
                            try:
                                e2, r2 = impl.envelope_members(members[uri.value])
                                want = registry.digest(alg, r2[3])
                            except Exception as e:
                                problems.append(("member-not-envelope", f"{uri.value!r} is not an envelope: {e}"))
                                continue
                            if val != want:
                                problems.append(("dependency-digest", f"digest in force for {uri.value!r} ({val.hex()[:16]}..) != hash of that member's wrapped manifest ({want.hex()[:16]}..)"))
            elif code == 32:
                run(refcbor.decode(arg.value), state)
            elif code == 15:
                for alt in arg.items:
                    run(refcbor.decode(alt.value), {"cur": list(state["cur"]), "params": {k: dict(v) for k, v in state["params"].items()}})

    shared = common.get(4)
    for code in (7, 8, 9, 15, 16, 18, 20, 24):
        body = man.get(code)
        if body is None:
            continue
        if body.kind == "array":        # severed: digest; the body is an envelope member
            if code not in raw:
                continue
            body = env.get(code)
        state = {"cur": list(range(ncomp)), "params": {}}
        try:
            if shared is not None:
                run(refcbor.decode(shared.value), state)
            run(refcbor.decode(body.value), state)
        except Exception as e:
            problems.append(("sequence-undecodable", f"member {code}: {type(e).__name__}: {e}"))
    installed = [c.items[1].value for c, k in zip(comps, kinds) if k == "INSTLD_MFST" and len(c.items) > 1]
    own = man.get(5)
    return problems, {"ncomp": ncomp, "installed": installed, "fetched": fetched, "own_class": own.items[1].value if own is not None else None,
                      "seq": man.get(2).value, "version": man.get(6), "members": sorted(members)}


# -- root template -----------------------------------------------------------------------------------

# version settings: name -> (EXTRAVERSION line or None, override kind, expected sequence number, expected version list)
FSEQ = (2 << 24) + (1 << 16) + (3 << 8) + 4
VERS = {
    "version-file": ("rc.2", None, FSEQ, [2, 1, 3, -1, 2]),
    "explicit": ("rc.2", "both", 1234, [7, 8, 9, -2, 1]),
    "version-file-bare-tag": ("rc", None, FSEQ, [2, 1, 3, -1]),
    "version-file-release": (None, None, FSEQ, [2, 1, 3]),
    "version-file-tag-dot": ("beta.", None, FSEQ, "any"),       # accepted text is up to the glue; rendering and creating must succeed
    "version-override-only": ("alpha1", "version", FSEQ, [7, 8, 9, -2, 1]),
    # VERSION files WITHOUT the Zephyr version fields: only the sequence number pinned / only the version pinned / nothing usable
    "no-fields-seq-only": (None, "seq", 1234, None),
    "no-fields-version-only": (None, "version", 1, [7, 8, 9, -2, 1]),
    "no-fields-at-all": (None, None, 1, None),
}
NO_FIELDS = {"no-fields-seq-only", "no-fields-version-only", "no-fields-at-all"}
VER_NAMES = ["none"] + list(VERS)


def root_cases(tier):
    out = []
    subsets = [s for r in (1, 2, 3) for s in itertools.combinations(IMAGES, r)]
    for imgs in subsets:
        for names in itertools.product((False, True), repeat=3):
            for ver in VER_NAMES:
                if tier == "quick":
                    vsets = [[v] * len(imgs) for v in (VARIANTS if ver in ("none", "version-file", "explicit") else VARIANTS[:1])]
                else:
                    vsets = [list(v) for v in itertools.product(VARIANTS, repeat=len(imgs))]
                for vs in vsets:
                    out.append({"tpl": "root", "imgs": list(imgs), "custom": list(names), "ver": ver, "variants": vs})
    return out


def top_cases(tier):
    out = []
    for ver in VER_NAMES:
        vsets = [[v, v] for v in VARIANTS] if tier == "quick" else [list(v) for v in itertools.product(VARIANTS, repeat=2)]
        for vs in vsets:
            out.append({"tpl": "top", "imgs": ["secdom", "sysctrl"], "custom": [False, False, False], "ver": ver, "variants": vs})
    return out


def reuse_cases(tier):
    out = []
    for imgs in (["radio"], ["application", "top"], ["radio", "application", "top"]):
        for v1, v2 in (("minimal", "rich"), ("rich", "signed"), ("signed", "minimal")):
            out.append({"tpl": "root", "imgs": imgs, "custom": [False, False, False], "ver": "none", "variants": [v2] * len(imgs), "before": [v1] * len(imgs)})
    return out


def run_template(case, agg):
    from ncs import build
    from suit_generator import cmd_create
    key = h8("c19", case)
    if case.get("before") and not case.get("_second"):
        # a first build in the same process and the SAME artifacts folder with other child envelopes; then the real one
        with fresh_dir("c19shared") as shared:
            first = dict(case, variants=case["before"], _second=True, _dir=shared)
            tmp = type(agg)()
            run_template(first, tmp)
            if tmp.violations:
                agg.violations += tmp.violations
                return
            run_template(dict(case, _second=True, _dir=shared), agg)
        return
    label = f"{case['tpl']} template images={case['imgs']} custom-names(root,app,rad)={case['custom']} version={case['ver']} children={case['variants']}"
    names = {k: (CUSTOM_NAMES[k] if c else DEFAULT_NAMES[k]) for k, c in zip(("root", "app", "rad"), case["custom"])}
    import contextlib
    with (contextlib.nullcontext(case["_dir"]) if case.get("_dir") else fresh_dir("c19")) as d:
        art = os.path.join(d, "artifacts") + os.sep
        os.makedirs(art, exist_ok=True)
        # sysbuild configuration + one .config per image, consumed by the real read_configurations
        sb = os.path.join(d, "sysbuild.config")
        with open(sb, "w") as fh:
            fh.write("CONFIG_SOMETHING=y\nSB_CONFIG_X=0x10\n")
            for k, c in zip(("root", "app", "rad"), case["custom"]):
                if c:
                    fh.write(f'SB_CONFIG_SUIT_MPI_{KCFG[k]}_VENDOR_NAME="{names[k][0]}"\nSB_CONFIG_SUIT_MPI_{KCFG[k]}_CLASS_NAME="{names[k][1]}"\n')
                # what a .config also contains: the previous / unset values as comments (below the active line, or alone)
                fh.write(f'# SB_CONFIG_SUIT_MPI_{KCFG[k]}_VENDOR_NAME="commented-out.example"\n#SB_CONFIG_SUIT_MPI_{KCFG[k]}_CLASS_NAME="commented_out"\n'
                         f'# SB_CONFIG_SUIT_MPI_{KCFG[k]}_SOMETHING is not set\n')
        cores = [f"sysbuild,,,{sb}"]
        children = {}
        for img, var in zip(case["imgs"], case["variants"]):
            cfgp = os.path.join(d, f"{img}.config")
            open(cfgp, "w").write("CONFIG_SUIT_ENVELOPE_TARGET=\"x\"\n")
            binp = os.path.join(d, f"{IMG_NAME[img]}.bin")
            open(binp, "wb").write(b"\x00" * 16)
            cores.append(f"{IMG_NAME[img] if False else img},{binp},,{cfgp}")
            children[img] = child_envelope(img, var, d)
        try:
            ctx = build.read_configurations(cores, None)
            # the image's name (used for '#name' and the artifact file) is the --core name
            for img in case["imgs"]:
                open(os.path.join(art, f"{ctx[img]['name']}.suit"), "wb").write(children[img])
            want_seq, want_ver = 1, None
            if case["ver"] != "none":
                vf = os.path.join(d, "VERSION")
                extra_line, override, want_seq, want_ver = VERS[case["ver"]]
                with open(vf, "w") as fh:
                    if case["ver"] in NO_FIELDS:
                        fh.write("# no version fields in this file\nSOMETHING_ELSE = 5\n")
                    else:
                        fh.write("VERSION_MAJOR = 2\nVERSION_MINOR = 1\nPATCHLEVEL = 3\nVERSION_TWEAK = 4\n")
                    if extra_line is not None:
                        fh.write(f"EXTRAVERSION = {extra_line}\n")
                    pre = "APP_ROOT" if case["tpl"] == "root" else "NORDIC_TOP"
                    if override in ("both", "version"):
                        fh.write(f"{pre}_VERSION = 7.8.9-beta.1\n")
                    if override in ("both", "seq"):
                        fh.write(f"{pre}_SEQ_NUM = 1234\n")
                ctx.update(build.read_version_file(vf))
            ctx["output_envelope"] = os.path.join(d, "out.suit")
            ctx["artifacts_folder"] = art
            tpl = repo("ncs", "root_with_nordic_top_envelope.yaml.jinja2" if case["tpl"] == "root" else "nordic_top_envelope.yaml.jinja2")
            yp = os.path.join(d, "root.yaml")
            if case.get("via") == "script":
                # the build glue as the build system runs it: `python ncs/build.py template --core ... --version_file ...`
                import subprocess, sys
                args = [sys.executable, repo("ncs", "build.py"), "template", "--zephyr-base", os.path.join(d, "no-zephyr"), "--artifacts-folder", art,
                        "--template-suit", tpl, "--output-suit", yp]
                for c_ in cores:
                    args += ["--core", c_]
                if case["ver"] != "none":
                    args += ["--version_file", os.path.join(d, "VERSION")]
                pr = subprocess.run(args, cwd=d, capture_output=True, text=True, timeout=300, env=dict(os.environ, PYTHONPATH=os.environ["SVMC_REPO"]))
                if pr.returncode != 0:
                    raise RuntimeError(f"ncs/build.py template failed: rc={pr.returncode} {pr.stderr[-300:]}")
            else:
                text = build.render_template(tpl, ctx)
                open(yp, "w").write(text)
            cmd_create.main(input_file=yp, input_format="AUTO", output_file=os.path.join(d, "out.suit"))
            out = open(os.path.join(d, "out.suit"), "rb").read()
        except BaseException as e:
            if isinstance(e, KeyboardInterrupt):
                raise
            agg.viol(f"C19:{case['tpl']}/render-or-create-failed/{type(e).__name__}", f"{label}: {type(e).__name__}: {str(e)[:300]}")
            return
    try:
        problems, facts = interpret(out)
    except Exception as e:
        agg.viol(f"C19:{case['tpl']}/output-structure", f"{label}: {type(e).__name__}: {e}")
        return
    # expectations from the configuration
    if case["tpl"] == "root":
        exp_installed = []
        if "radio" in case["imgs"]:
            exp_installed.append(refuuid.cid(*names["rad"]))
        if "application" in case["imgs"]:
            exp_installed.append(refuuid.cid(*names["app"]))
        if "top" in case["imgs"]:
            exp_installed.append(refuuid.cid("nordicsemi.com", "nRF54H20_nordic_top"))
        exp_own = refuuid.cid(*names["root"])
    else:
        exp_installed = [refuuid.cid("nordicsemi.com", "nRF54H20_sec"), refuuid.cid("nordicsemi.com", "nRF54H20_sys")]
        exp_own = refuuid.cid("nordicsemi.com", "nRF54H20_nordic_top")
    if facts["installed"] != exp_installed:
        problems.append(("installed-class-ids", f"INSTLD_MFST class IDs {[x.hex()[:8] for x in facts['installed']]} != those of the configured names {[x.hex()[:8] for x in exp_installed]}"))
    if facts["own_class"] != exp_own:
        problems.append(("own-class-id", f"manifest component ID class {facts['own_class'].hex() if facts['own_class'] else None} != {exp_own.hex()}"))
    exp_members = sorted("#" + img for img in case["imgs"])
    if facts["members"] != exp_members:
        problems.append(("integrated-dependencies", f"integrated members {facts['members']} != {exp_members}"))
    if sorted(set(facts["fetched"])) != exp_members:
        problems.append(("fetched-uris", f"fetched URIs {sorted(set(facts['fetched']))} != {exp_members}"))
    if facts["seq"] != want_seq:
        problems.append(("sequence-number", f"sequence number {facts['seq']} != {want_seq}"))
    gotv = refcbor.to_py(refcbor.decode(facts["version"].value)) if facts["version"] is not None else None
    if want_ver != "any" and gotv != want_ver:
        problems.append(("current-version", f"current version {gotv} != {want_ver}"))
    if problems:
        agg.viol(f"C19:{case['tpl']}/{problems[0][0]}", f"{label}: " + "; ".join(p[1] for p in problems[:3]))
    else:
        agg.ok(key, f"ok:{case['tpl']}:images={len(case['imgs'])}", sample=case if (len(case["imgs"]) == 3 and case["ver"] == "explicit" and case["custom"] == [True, False, True] and case["variants"][0] == "signed") else None)


def script_cases(tier):
    out = []
    for imgs, custom, ver, var in ((["radio", "application", "top"], [True, True, True], "version-file", "rich"), (["application"], [False, True, False], "explicit", "signed"),
                                   (["radio"], [True, False, False], "none", "minimal"), (["top"], [False, False, False], "version-file", "minimal")):
        out.append({"tpl": "root", "imgs": imgs, "custom": custom, "ver": ver, "variants": [var] * len(imgs), "via": "script"})
    for ver in ("none", "version-file", "explicit"):
        out.append({"tpl": "top", "imgs": ["secdom", "sysctrl"], "custom": [False, False, False], "ver": ver, "variants": ["rich", "minimal"], "via": "script"})
    return out


def plan(tier):
    return [
        CaseStage("root-template", lambda: root_cases(tier), run_template, disjoint=True, rule="image subsets x MPI names x version setting x child variants"),
        CaseStage("top-template", lambda: top_cases(tier), run_template, disjoint=True, rule="version setting x child variants"),
        CaseStage("build-script", lambda: script_cases(tier), run_template, rule="ncs/build.py run as a script (template sub-command) for 7 configurations"),
        CaseStage("artifacts-folder-reused", lambda: reuse_cases(tier), run_template, rule="two consecutive builds in one process and one artifacts folder, children regenerated in between"),
    ]
