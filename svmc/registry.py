"""Name <-> integer registry of the description language, written by hand from the specifications.

Sources: draft-ietf-suit-manifest (envelope/manifest/common members, commands, parameters, text keys, reporting policy),
draft-ietf-suit-trust-domains (dependency-resolution 15, candidate-verification 18, manifest-component-id 5,
dependencies 1, dependency-prefix 1, process-dependency 11, is-dependency 8, dependency-integrity 7, unlink 33,
uninstall 24), draft-ietf-suit-update-management (version condition/parameter 28, comparators 1..5,
device-identifier 24, component-slot 5), RFC 9052/9053/9054 (COSE header labels and algorithms), RFC 8392 (CWT claims)
and the Nordic extensions named in the property anchors (suit-current-version 6, suit-install-legacy 17,
invoke-args 23 with synchronous-invoke 1 / timeout 2, HashEdDSA as private-use -65537).
Nothing here is generated from suit_generator/suit/types/keys.py.
"""

ENVELOPE = {
    "suit-delegation": 1,
    "suit-authentication-wrapper": 2,
    "suit-manifest": 3,
    "suit-dependency-resolution": 15,
    "suit-payload-fetch": 16,
    "suit-install-legacy": 17,
    "suit-candidate-verification": 18,
    "suit-install": 20,
    "suit-text": 23,
}
ENVELOPE_PSEUDO = ["suit-integrated-payloads", "suit-integrated-dependencies"]

MANIFEST = {
    "suit-manifest-version": 1,
    "suit-manifest-sequence-number": 2,
    "suit-common": 3,
    "suit-reference-uri": 4,
    "suit-manifest-component-id": 5,
    "suit-current-version": 6,
    "suit-validate": 7,
    "suit-load": 8,
    "suit-invoke": 9,
    "suit-dependency-resolution": 15,
    "suit-payload-fetch": 16,
    "suit-install-legacy": 17,
    "suit-candidate-verification": 18,
    "suit-install": 20,
    "suit-text": 23,
    "suit_uninstall": 24,      # the tool's vocabulary spells this one with an underscore
}

COMMON = {"suit-dependencies": 1, "suit-components": 2, "suit-shared-sequence": 4}
DEPENDENCY_METADATA = {"suit-dependency-prefix": 1}

CONDITIONS = {
    "suit-condition-vendor-identifier": 1,
    "suit-condition-class-identifier": 2,
    "suit-condition-image-match": 3,
    "suit-condition-component-slot": 5,
    "suit-condition-check-content": 6,
    "suit-condition-dependency-integrity": 7,
    "suit-condition-is-dependency": 8,
    "suit-condition-abort": 14,
    "suit-condition-device-identifier": 24,
    "suit-condition-version": 28,
}
DIRECTIVES = {
    "suit-directive-process-dependency": 11,
    "suit-directive-set-component-index": 12,
    "suit-directive-try-each": 15,
    "suit-directive-write": 18,
    "suit-directive-set-parameters": 19,
    "suit-directive-override-parameters": 20,
    "suit-directive-fetch": 21,
    "suit-directive-copy": 22,
    "suit-directive-invoke": 23,
    "suit-directive-swap": 31,
    "suit-directive-run-sequence": 32,
    "suit-directive-unlink": 33,
}
COMMANDS = {**CONDITIONS, **DIRECTIVES}

PARAMETERS = {
    "suit-parameter-vendor-identifier": 1,
    "suit-parameter-class-identifier": 2,
    "suit-parameter-image-digest": 3,
    "suit-parameter-component-slot": 5,
    "suit-parameter-strict-order": 12,
    "suit-parameter-soft-failure": 13,
    "suit-parameter-image-size": 14,
    "suit-parameter-content": 18,
    "suit-parameter-encryption-info": 19,
    "suit-parameter-uri": 21,
    "suit-parameter-source-component": 22,
    "suit-parameter-invoke-args": 23,
    "suit-parameter-device-identifier": 24,
    "suit-parameter-version": 28,
}

TEXT_KEYS = {
    "suit-text-manifest-description": 1,
    "suit-text-update-description": 2,
    "suit-text-manifest-json-source": 3,
    "suit-text-manifest-yaml-source": 4,
}
TEXT_COMPONENT_KEYS = {
    "suit-text-vendor-name": 1,
    "suit-text-model-name": 2,
    "suit-text-vendor-domain": 3,
    "suit-text-model-info": 4,
    "suit-text-component-description": 5,
    "suit-text-component-version": 6,
}

REPORTING = {
    "suit-send-record-success": 1,
    "suit-send-record-failure": 2,
    "suit-send-sysinfo-success": 4,
    "suit-send-sysinfo-failure": 8,
}

VERSION_COMPARATORS = {
    "suit-condition-version-comparison-greater": 1,
    "suit-condition-version-comparison-greater-equal": 2,
    "suit-condition-version-comparison-equal": 3,
    "suit-condition-version-comparison-lesser-equal": 4,
    "suit-condition-version-comparison-lesser": 5,
}

INVOKE_ARGS = {"suit-synchronous-invoke": 1, "suit-timeout": 2}

COSE_HEADERS = {"suit-cose-algorithm-id": 1, "suit-cose-key-id": 4, "suit-cose-iv": 5}

COSE_ALGS = {
    "cose-alg-es-256": -7,
    "cose-alg-es-384": -35,
    "cose-alg-es-521": -36,
    "cose-alg-eddsa": -8,
    "cose-alg-vs-hash-eddsa": -65537,
    "cose-alg-aes-gcm-128": 1,
    "cose-alg-aes-gcm-192": 2,
    "cose-alg-aes-gcm-256": 3,
    "cose-alg-a128kw": -3,
    "cose-alg-a192kw": -4,
    "cose-alg-a256kw": -5,
    "cose-alg-direct": -6,
}

HASH_ALGS = {
    "cose-alg-sha-256": -16,
    "cose-alg-shake128": -18,
    "cose-alg-sha-384": -43,
    "cose-alg-sha-512": -44,
    "cose-alg-shake256": -45,
}

CWT_CLAIMS = {
    "Issuer": 1,
    "Subject": 2,
    "Audience": 3,
    "Expiration Time": 4,
    "Not Before": 5,
    "Issued At": 6,
    "CW ID": 7,
}

TAGS = {"SUIT_Envelope_Tagged": 107, "CoseSign1Tagged": 18, "CoseEncryptTagged": 96}

SPACES = {
    "envelope": ENVELOPE,
    "envelope-simplified": ENVELOPE,      # the second description of the envelope members (load/dump "suit_simplified")
    "manifest": MANIFEST,
    "common": COMMON,
    "dependency-metadata": DEPENDENCY_METADATA,
    "commands": COMMANDS,
    "parameters": PARAMETERS,
    "text-keys": TEXT_KEYS,
    "text-component-keys": TEXT_COMPONENT_KEYS,
    "reporting-policy": REPORTING,
    "version-comparators": VERSION_COMPARATORS,
    "invoke-args": INVOKE_ARGS,
    "cose-headers": COSE_HEADERS,
    "cose-algorithms": COSE_ALGS,
    "hash-algorithms": HASH_ALGS,
    "cwt-claims": CWT_CLAIMS,
}

SEVERABLE = {"suit-dependency-resolution": 15, "suit-payload-fetch": 16, "suit-candidate-verification": 18,
             "suit-install": 20, "suit-text": 23, "suit-install-legacy": 17}

HASH_LEN = {-16: 32, -18: 16, -43: 48, -44: 64, -45: 32}


def digest(alg_code: int, data: bytes) -> bytes:
    import hashlib
    if alg_code == -16:
        return hashlib.sha256(data).digest()
    if alg_code == -43:
        return hashlib.sha384(data).digest()
    if alg_code == -44:
        return hashlib.sha512(data).digest()
    if alg_code == -18:
        return hashlib.shake_128(data).digest(16)
    if alg_code == -45:
        return hashlib.shake_256(data).digest(32)
    raise ValueError(f"unknown digest algorithm {alg_code}")
