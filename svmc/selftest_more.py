"""Further self-tests: Ed25519ph (RFC 8032 7.3), UUIDv5, refsuit on a fixed vector."""
from . import refcose, refuuid


def main():
    pub = bytes.fromhex("ec172b93ad5e563bf4932c70e1245034c35467ef2efd4d64ebf819683467e2bf")
    sig = bytes.fromhex("98a70222f0b8121aa9d30f813d683f809e462b469c7ff87639499bb94e6dae41"
                        "31f85042463c2a355a2003d062adf5aaa10b8c61e636062aaad11c2a26083406")
    assert refcose.ed25519ph_verify(pub, b"abc", sig)
    assert not refcose.ed25519ph_verify(pub, b"abd", sig)
    assert not refcose.ed25519ph_verify(pub, b"abc", sig[:-1] + bytes([sig[-1] ^ 1]))
    # UUIDv5 (python.org example from the uuid documentation)
    assert refuuid.uuid5(refuuid.NAMESPACE_DNS, "python.org").hex() == "886313e13b8a53729b900c9aee199e5d"
    assert refcose.sig_structure(b"\xa1\x01\x26", b"x").hex() == "846a5369676e61747572653143a101264041" + "78"
    assert refcose.enc_structure(bytes.fromhex("a10103")).hex() == "8367456e637279707443a1010340"
