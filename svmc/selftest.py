"""Self-test of the reference components against fixed vectors (and cbor2 as a second opinion)."""
from . import refcbor, refhex


def main():
    # RFC 8949 appendix A vectors
    vec = [(0, "00"), (23, "17"), (24, "1818"), (255, "18ff"), (256, "190100"), (65535, "19ffff"), (65536, "1a00010000"),
           (2**32 - 1, "1affffffff"), (2**32, "1b0000000100000000"), (2**64 - 1, "1bffffffffffffffff"),
           (-1, "20"), (-24, "37"), (-25, "3818"), (-256, "38ff"), (-257, "390100"), (-2**64, "3bffffffffffffffff"),
           (b"", "40"), (b"\x01\x02\x03\x04", "4401020304"), ("", "60"), ("a", "6161"), ("ü", "62c3bc"),
           ([], "80"), ([1, [2, 3]], "8201820203"), ({}, "a0"), ({1: 2, 3: 4}, "a201020304"), (None, "f6"), (True, "f5"),
           (False, "f4"), (refcbor.Tag(1, 1363896240), "c11a514b67b0"), ({"a": 1, "b": [2, 3]}, "a26161016162820203")]
    for v, hx in vec:
        assert refcbor.enc(v).hex() == hx, (v, refcbor.enc(v).hex(), hx)
        assert refcbor.to_py(refcbor.decode(bytes.fromhex(hx))) == v, (v, hx)
    # indefinite forms
    it = refcbor.decode(bytes.fromhex("bf61610161629f0203ffff"))
    assert refcbor.to_py(it) == {"a": 1, "b": [2, 3]} and it.indef
    assert refcbor.to_py(refcbor.decode(bytes.fromhex("5f42010243030405ff"))) == b"\x01\x02\x03\x04\x05"
    for bad in ("18", "1900", "41", "8201", "a101", "ff", "1c", "5f4101", "0000"):
        try:
            refcbor.decode(bytes.fromhex(bad))
        except refcbor.CborError:
            continue
        raise AssertionError(f"accepted malformed {bad}")
    assert refcbor.is_canonical(bytes.fromhex("1818")) is None
    assert refcbor.is_canonical(bytes.fromhex("1817")) is not None
    assert refcbor.is_canonical(bytes.fromhex("9fff")) is not None
    # spans
    d = bytes.fromhex("a2014401020304626162f6")
    it = refcbor.decode(d)
    v = it.get(1)
    assert d[v.start:v.end] == bytes.fromhex("4401020304") and v.head == 1
    try:
        import cbor2
        import itertools
        objs = [0, 1, -1, 2**40, b"abc", "text", [1, [2, [3]]], {1: {2: b"x"}, "k": [None, True]}, cbor2.CBORTag(107, {3: b"m"})]
        for o in objs:
            b = cbor2.dumps(o)
            it = refcbor.decode(b)
            assert refcbor.enc(refcbor.to_py(it)) == b, o
    except ImportError:
        pass
    # Intel HEX
    txt = ":020000040E1ECE\n:04F340005555AAAA" + f"{(-(4 + 0xF3 + 0x40 + 0x55 * 2 + 0xAA * 2)) & 0xFF:02X}" + "\n:00000001FF\n"
    mem = refhex.read_hex(txt)
    assert mem == {0x0E1EF340: 0x55, 0x0E1EF341: 0x55, 0x0E1EF342: 0xAA, 0x0E1EF343: 0xAA}, mem
    for bad in (":00000001FE\n", ":0100000000FE\n:00000001FF\n", ":0100000000FF\n"):
        try:
            refhex.read_hex(bad)
        except refhex.HexError:
            continue
        raise AssertionError(f"accepted malformed hex {bad!r}")
    try:
        from . import selftest_more
        selftest_more.main()
    except ImportError:
        pass
    print("selftest ok")
    return 0
