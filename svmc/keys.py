"""Harness-owned key material, generated with `cryptography` directly (never with the tool's `keys` command).

Deterministic: fixed private scalars / seeds, so that runs are reproducible.  key_dir() materialises one directory per
check run: <name>.pem for p256/p384/p521/ed25519/ed448 (+ second identities <name>_b), <name>_der.der copies, and
AES-256 keys aes.bin / aes_b.bin.
"""
from __future__ import annotations

import hashlib
import os

from cryptography.hazmat.primitives import serialization
from cryptography.hazmat.primitives.asymmetric import ec, ed25519, ed448

from . import core

_CURVES = {"p256": ec.SECP256R1(), "p384": ec.SECP384R1(), "p521": ec.SECP521R1()}
_cache = {}


def _seed(name, n):
    return hashlib.shake_256(b"svmc-key:" + name.encode()).digest(n)


def private_key(name):
    """name: p256 | p384 | p521 | ed25519 | ed448, optionally suffixed with _<x> for further identities."""
    if name in _cache:
        return _cache[name]
    kind = name.split("_")[0]
    if kind in _CURVES:
        curve = _CURVES[kind]
        d = int.from_bytes(_seed(name, (curve.key_size + 7) // 8), "big") % (2 ** (curve.key_size - 2)) + 2
        k = ec.derive_private_key(d, curve)
    elif kind == "ed25519":
        k = ed25519.Ed25519PrivateKey.from_private_bytes(_seed(name, 32))
    elif kind == "ed448":
        k = ed448.Ed448PrivateKey.from_private_bytes(_seed(name, 57))
    else:
        raise ValueError(name)
    _cache[name] = k
    return k


def pem(name):
    return private_key(name).private_bytes(serialization.Encoding.PEM, serialization.PrivateFormat.PKCS8, serialization.NoEncryption())


def der(name):
    return private_key(name).private_bytes(serialization.Encoding.DER, serialization.PrivateFormat.PKCS8, serialization.NoEncryption())


def aes_key(name="aes"):
    return _seed(name, 32)


NAMES = ["p256", "p384", "p521", "ed25519", "ed448"]
ALG_OF = {"p256": "es-256", "p384": "es-384", "p521": "es-521", "ed25519": "eddsa", "ed448": "eddsa"}


# file key name (as given to --key-name) -> harness identity
DOTTED = {"aes.v2": "aes_dotv2", "solo.aes": "aes_solo", "aes.2024-06.rel": "aes_rel"}
for _n in NAMES:
    DOTTED[f"{_n}.v2"] = f"{_n}_dotv2"
    DOTTED[f"solo.{_n}"] = f"{_n}_solo"
    DOTTED[f"solo.{_n}-der"] = f"{_n}_solo"


FORMS = ("trad", "crlf", "sec1", "text")      # <kind>-<form>: other standard serialisations of the identity <kind>_form


def identity(key_name: str) -> str:
    """harness identity behind a key name of the main key directory"""
    if key_name in DOTTED:
        return DOTTED[key_name]
    if "-" in key_name and key_name.split("-")[1] in FORMS:
        return key_name.split("-")[0] + "_form"
    return key_name.replace("_der", "")


def form_blob(kind, form):
    """-> (extension, bytes) or None when the form does not exist for this key type"""
    k = private_key(kind + "_form")
    pk8 = k.private_bytes(serialization.Encoding.PEM, serialization.PrivateFormat.PKCS8, serialization.NoEncryption())
    if form == "crlf":
        return "pem", pk8.replace(b"\n", b"\r\n")
    if form == "text":
        return "pem", b"Key for the release build\n\n" + pk8 + b"\n"
    if kind not in _CURVES:
        return None
    if form == "trad":
        return "pem", k.private_bytes(serialization.Encoding.PEM, serialization.PrivateFormat.TraditionalOpenSSL, serialization.NoEncryption())
    return "der", k.private_bytes(serialization.Encoding.DER, serialization.PrivateFormat.TraditionalOpenSSL, serialization.NoEncryption())


def key_dir_alt() -> str:
    """a second key directory: the SAME file names hold OTHER keys (identity <name>_alt); used as a per-node context."""
    d = os.path.join(core.run_scratch(), "keys_alt")
    marker = os.path.join(d, ".complete")
    if os.path.exists(marker):
        return d
    tmp = d + f".tmp{os.getpid()}"
    os.makedirs(tmp, exist_ok=True)
    for i in range(6):
        for n in ("ed25519", "p256"):
            for sep in ("_", "."):
                with open(os.path.join(tmp, f"{n}{sep}n{i}.pem"), "wb") as fh:
                    fh.write(pem(f"{n}_n{i}_alt"))
    for n in ("ed25519", "p256"):
        with open(os.path.join(tmp, f"{n}.pem"), "wb") as fh:
            fh.write(pem(f"{n}_plain_alt"))
    with open(os.path.join(tmp, "aes.bin"), "wb") as fh:
        fh.write(aes_key("aes_alt"))
    open(os.path.join(tmp, ".complete"), "w").close()
    try:
        os.rename(tmp, d)
    except OSError:
        import shutil
        shutil.rmtree(tmp, ignore_errors=True)
    return d


def key_dir(_unused=None) -> str:
    """One key directory per check run (idempotent, safe under concurrent workers)."""
    d = os.path.join(core.run_scratch(), "keys")
    marker = os.path.join(d, ".complete")
    if os.path.exists(marker):
        return d
    tmp = d + f".tmp{os.getpid()}"
    os.makedirs(tmp, exist_ok=True)
    for n in NAMES:
        for suffix in ("", "_b"):
            with open(os.path.join(tmp, f"{n}{suffix}.pem"), "wb") as fh:
                fh.write(pem(n + suffix))
        with open(os.path.join(tmp, f"{n}_der.der"), "wb") as fh:
            fh.write(der(n))
    for i in range(6):
        for n in ("ed25519", "p256"):
            for sep in ("_", "."):       # "<kind>.n<i>" is the same identity under a dotted name (a sibling "<kind>.pem" exists)
                with open(os.path.join(tmp, f"{n}{sep}n{i}.pem"), "wb") as fh:
                    fh.write(pem(f"{n}_n{i}"))
    for n in ("aes", "aes_b"):
        with open(os.path.join(tmp, f"{n}.bin"), "wb") as fh:
            fh.write(aes_key(n))
    for n in NAMES:
        for form in FORMS:
            fb = form_blob(n, form)
            if fb:
                with open(os.path.join(tmp, f"{n}-{form}.{fb[0]}"), "wb") as fh:
                    fh.write(fb[1])
    # key names containing dots: "<n>.v2" lives next to "<n>" (which holds ANOTHER key), "solo.<n>" has no sibling
    for fname, ident in DOTTED.items():
        kind = ident.split("_")[0]
        if kind == "aes":
            with open(os.path.join(tmp, fname + ".bin"), "wb") as fh:
                fh.write(aes_key(ident))
        elif fname.endswith("-der"):
            with open(os.path.join(tmp, fname + ".der"), "wb") as fh:
                fh.write(der(ident))
        else:
            with open(os.path.join(tmp, fname + ".pem"), "wb") as fh:
                fh.write(pem(ident))
    open(os.path.join(tmp, ".complete"), "w").close()
    try:
        os.rename(tmp, d)
    except OSError:
        import shutil
        shutil.rmtree(tmp, ignore_errors=True)   # another worker won the race
    return d
