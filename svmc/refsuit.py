"""Reference encoder of the suit-generator description language (independent of the tool).

encode_envelope(desc, fs) -> bytes, where desc is {"SUIT_Envelope_Tagged": {...}} in the YAML/JSON language (input
forms and the forms `parse` prints) and fs maps file paths to their bytes.  Encoding rules are taken from
draft-ietf-suit-manifest / -trust-domains / -update-management / -firmware-encryption and RFC 9052 (see DESIGN.md
appendix A); name->integer codes come from svmc/registry.py.  B(x) = bstr .cbor x.
"""
from __future__ import annotations

import json
import string

from . import registry as R
from . import refuuid
from .refcbor import enc, Raw, Tag, decode, CborError


class RefError(ValueError):
    """The description is outside the language the reference encoder defines."""


class FS:
    def __init__(self, files=None, cwd="/"):
        self.files = dict(files or {})
        self.cwd = cwd

    def _abs(self, p):
        import os
        return os.path.normpath(p if os.path.isabs(p) else os.path.join(self.cwd, p))

    def has(self, p):
        return self._abs(p) in self.files

    def read(self, p):
        a = self._abs(p)
        if a not in self.files:
            raise RefError(f"no such file {p}")
        return self.files[a]


def B(x) -> Raw:
    """bstr-wrap an encoded item."""
    return Raw(enc(x.data if isinstance(x, Raw) else enc(x)))


def _hex(s):
    if not isinstance(s, str):
        raise RefError(f"hex string expected, got {type(s).__name__}")
    try:
        return bytes.fromhex(s)
    except ValueError:
        raise RefError(f"not a hex string: {s[:40]!r}")


def _name(table, name, what):
    if not isinstance(name, str) or name not in table:
        raise RefError(f"unknown {what}: {name!r}")
    return table[name]


def _uint(v, what):
    if isinstance(v, bool) or not isinstance(v, int) or v < 0:
        raise RefError(f"{what}: unsigned integer expected, got {v!r}")
    return v


def _int(v, what):
    if isinstance(v, bool) or not isinstance(v, int):
        raise RefError(f"{what}: integer expected, got {v!r}")
    return v


def _tstr(v, what):
    if not isinstance(v, str):
        raise RefError(f"{what}: text expected, got {v!r}")
    return v


def _bool(v, what):
    if not isinstance(v, bool):
        raise RefError(f"{what}: bool expected, got {v!r}")
    return v


# ---------------------------------------------------------------------------------------------------
# leaves
# ---------------------------------------------------------------------------------------------------

def uuid_bytes(o):
    if not isinstance(o, dict):
        raise RefError(f"uuid: dict expected, got {o!r}")
    if "RFC4122_UUID" in o:
        u = o["RFC4122_UUID"]
        if isinstance(u, dict):
            if "name" not in u:
                raise RefError("uuid: name missing")
            ns = refuuid.uuid5(refuuid.NAMESPACE_DNS, u["namespace"]) if "namespace" in u else refuuid.NAMESPACE_DNS
            return refuuid.uuid5(ns, u["name"])
        return refuuid.uuid5(refuuid.NAMESPACE_DNS, _tstr(u, "uuid name"))
    if "raw" in o:
        return _hex(o["raw"])
    raise RefError(f"uuid: unknown form {o!r}")


def component_part(p):
    """-> bytes content of the bstr for one component-identifier part."""
    if isinstance(p, dict):
        return uuid_bytes(p)
    if isinstance(p, bool):
        raise RefError("component part: bool")
    if isinstance(p, int):
        return enc(p)
    if isinstance(p, str):
        if len(p.encode("utf-8")) == 1:
            return p.encode("utf-8")
        if len(p) == 1:
            raise RefError("component part: single non-ASCII character (no defined encoding)")
        return enc(p)
    raise RefError(f"component part: {p!r}")


def component_id(c):
    if not isinstance(c, list):
        raise RefError(f"component identifier: list expected, got {c!r}")
    return [component_part(p) for p in c]


def version_list(v):
    if isinstance(v, list):
        return [_int(x, "version element") for x in v]
    if not isinstance(v, str):
        raise RefError(f"version: {v!r}")
    out = []
    for part in v.replace("-", ".").split("."):
        if part.isdigit():
            out.append(int(part))
        elif part in ("alpha", "beta", "rc"):
            out.append({"alpha": -3, "beta": -2, "rc": -1}[part])
        else:
            raise RefError(f"version part {part!r}")
    return out


def rep_policy(lst):
    if not isinstance(lst, list):
        raise RefError(f"reporting policy: list expected, got {lst!r}")
    bits = [_name(R.REPORTING, b, "reporting policy bit") for b in lst]
    if len(set(bits)) != len(bits):
        raise RefError("reporting policy: duplicate bit")
    return sum(bits)


# ---------------------------------------------------------------------------------------------------
# digests and file references
# ---------------------------------------------------------------------------------------------------

class Ctx:
    def __init__(self, fs):
        self.fs = fs


def digest_pair(o, ctx):
    """SUIT_Digest description -> [alg, bytes] (python list)."""
    if not isinstance(o, dict):
        raise RefError(f"digest: dict expected, got {o!r}")
    extra = set(o) - {"suit-digest-algorithm-id", "suit-digest-bytes"}
    if extra:
        raise RefError(f"digest: unexpected keys {sorted(extra)}")
    alg = _name(R.HASH_ALGS, o.get("suit-digest-algorithm-id"), "digest algorithm")
    b = o.get("suit-digest-bytes", "")
    if isinstance(b, dict):
        if "file" in b:
            val = R.digest(alg, ctx.fs.read(b["file"]))
        elif "envelope" in b:
            e = b["envelope"]
            child = encode_envelope(e, ctx.fs) if isinstance(e, dict) else ctx.fs.read(e)
            val = R.digest(alg, manifest_item_bytes(child))
        elif "raw" in b:
            val = _hex(b["raw"])
        elif "file_direct" in b:
            val = ctx.fs.read(b["file_direct"])
        else:
            raise RefError(f"digest bytes: unknown form {b!r}")
    else:
        val = _hex(b)
    return [alg, val]


def manifest_item_bytes(envelope: bytes) -> bytes:
    """The bstr item under key 3 (head included) exactly as it appears in the envelope."""
    top = decode(envelope)
    if top.kind != "tag" or top.value != 107 or top.items[0].kind != "map":
        raise RefError("not a SUIT envelope")
    m = top.items[0].get(3)
    if m is None or m.kind != "bstr":
        raise RefError("envelope without manifest")
    return m.raw(envelope)


def image_size(o, ctx):
    if not isinstance(o, dict):
        raise RefError(f"image size: dict expected, got {o!r}")
    if "raw" in o:
        return _uint(o["raw"], "image size")
    if "file" in o:
        return len(ctx.fs.read(o["file"]))
    if "envelope" in o:
        e = o["envelope"]
        return len(encode_envelope(e, ctx.fs) if isinstance(e, dict) else ctx.fs.read(e))
    if "file_direct" in o:
        t = ctx.fs.read(o["file_direct"]).decode("ascii").strip()
        if not t.isdigit():
            raise RefError("file_direct size is not a decimal number")
        return int(t)
    raise RefError(f"image size: unknown form {o!r}")


# ---------------------------------------------------------------------------------------------------
# COSE
# ---------------------------------------------------------------------------------------------------

def header_map(o):
    if not isinstance(o, dict):
        raise RefError(f"header map: dict expected, got {o!r}")
    out = {}
    for k, v in o.items():
        code = _name(R.COSE_HEADERS, k, "COSE header")
        if code == 1:
            out[1] = _name(R.COSE_ALGS, v, "COSE algorithm")
        elif code == 4:
            if isinstance(v, str):
                out[4] = _hex(v)
            else:
                out[4] = enc(_int(v, "key id"))
        else:
            out[5] = _hex(v)
    return out


def ciphertext(v):
    return None if v is None else _hex(v)


def recipient(o):
    if not isinstance(o, dict):
        raise RefError(f"recipient: dict expected, got {o!r}")
    for k in ("protected", "unprotected", "ciphertext"):
        if k not in o:
            raise RefError(f"recipient: {k} missing")
    p = o["protected"]
    if p == {} or p == "" or p == b"":
        prot = b""
    else:
        prot = enc(header_map(p))
    out = [prot, header_map(o["unprotected"]), ciphertext(o["ciphertext"])]
    for k, v in o.items():
        if k.startswith("recipients"):
            out.append(recipients(v))
    return out


def recipients(lst):
    if not isinstance(lst, list):
        raise RefError("recipients: list expected")
    return [recipient(r) for r in lst]


def cose_encrypt(o):
    if not isinstance(o, dict):
        raise RefError("COSE_Encrypt: dict expected")
    for k in ("protected", "unprotected", "ciphertext", "recipients"):
        if k not in o:
            raise RefError(f"COSE_Encrypt: {k} missing")
    return [enc(header_map(o["protected"])), header_map(o["unprotected"]), ciphertext(o["ciphertext"]), recipients(o["recipients"])]


def encryption_info(o, ctx):
    if isinstance(o, dict) and "CoseEncryptTagged" in o:
        return B(Tag(96, cose_encrypt(o["CoseEncryptTagged"])))
    if isinstance(o, dict) and ("raw" in o or "file" in o):
        blob = _hex(o["raw"]) if "raw" in o else ctx.fs.read(o["file"])
        try:
            it = decode(blob)
        except CborError as e:
            raise RefError(f"encryption info blob is not one CBOR item: {e}")
        if it.kind != "bstr":
            raise RefError("encryption info blob is not a byte string")
        return Raw(enc(it.value))
    raise RefError(f"encryption info: unknown form {o!r}")


def cwt_claims(o):
    out = {}
    for k, v in o.items():
        code = _name(R.CWT_CLAIMS, k, "CWT claim")
        if code in (1, 2, 3):
            out[code] = _tstr(v, k)
        elif code in (4, 5, 6):
            out[code] = _int(v, k)
        else:
            out[code] = _hex(v)
    return out


def cose_sign1(o):
    if not isinstance(o, dict):
        raise RefError("COSE_Sign1: dict expected")
    for k in ("protected", "unprotected", "payload", "signature"):
        if k not in o:
            raise RefError(f"COSE_Sign1: {k} missing")
    pl = o["payload"]
    payload = None if pl is None else enc(cwt_claims(pl))      # RFC 9052: payload is bstr / nil
    return [enc(header_map(o["protected"])), header_map(o["unprotected"]), payload, _hex(o["signature"])]


def auth_block(o):
    if not isinstance(o, dict) or "CoseSign1Tagged" not in o:
        raise RefError("authentication block: CoseSign1Tagged expected")
    return enc(Tag(18, cose_sign1(o["CoseSign1Tagged"])))


def auth_wrapper(o, ctx):
    if not isinstance(o, dict) or "SuitDigest" not in o:
        raise RefError("authentication wrapper without SuitDigest")
    out = [enc(digest_pair(o["SuitDigest"], ctx))]
    for k, v in o.items():
        if k == "SuitDigest":
            continue
        if k.startswith("SuitAuthentication"):
            out.append(auth_block(v))
        else:
            raise RefError(f"authentication wrapper: unknown key {k}")
    return out


# ---------------------------------------------------------------------------------------------------
# commands
# ---------------------------------------------------------------------------------------------------

def parameters(o, ctx):
    if not isinstance(o, dict):
        raise RefError("parameters: dict expected")
    out = {}
    for k, v in o.items():
        code = _name(R.PARAMETERS, k, "parameter")
        if code in (1, 2, 24):
            out[code] = uuid_bytes(v)
        elif code == 3:
            out[code] = enc(digest_pair(v, ctx))
        elif code in (5, 22):
            out[code] = _uint(v, k)
        elif code in (12, 13):
            out[code] = _bool(v, k)
        elif code == 14:
            out[code] = image_size(v, ctx)
        elif code == 18:
            out[code] = _hex(v) if isinstance(v, str) else enc(_uint(v, k))
        elif code == 19:
            out[code] = encryption_info(v, ctx)
        elif code == 21:
            out[code] = _tstr(v, k)
        elif code == 23:
            if not isinstance(v, dict):
                raise RefError("invoke args: dict expected")
            ia = {}
            for kk, vv in v.items():
                c = _name(R.INVOKE_ARGS, kk, "invoke argument")
                ia[c] = _bool(vv, kk) if c == 1 else _uint(vv, kk)
            out[code] = enc(ia)
        elif code == 28:
            if not isinstance(v, dict) or len(v) != 1:
                raise RefError("version parameter: single comparator expected")
            (ck, cv), = v.items()
            out[code] = enc([_name(R.VERSION_COMPARATORS, ck, "comparator"), version_list(cv)])
    return out


def index_arg(v):
    if v is True:
        return True
    if isinstance(v, bool):
        raise RefError("component index: false")
    if isinstance(v, int):
        return _uint(v, "component index")
    if isinstance(v, list):
        return [_uint(x, "component index") for x in v]
    raise RefError(f"component index: {v!r}")


def sequence(lst, ctx):
    """-> python list: flat code/argument pairs."""
    if not isinstance(lst, list):
        raise RefError(f"command sequence: list expected, got {type(lst).__name__}")
    out = []
    for cmd in lst:
        if not isinstance(cmd, dict) or not cmd:
            raise RefError(f"command: non-empty dict expected, got {cmd!r}")
        kinds = {("c" if k in R.CONDITIONS else "d" if k in R.DIRECTIVES else "?") for k in cmd}
        if kinds - {"c", "d"} or len(kinds) != 1:
            raise RefError(f"command: unknown or mixed names {list(cmd)}")
        for k, v in cmd.items():
            code = R.COMMANDS[k]
            out.append(code)
            if k in R.CONDITIONS or code in (11, 18, 21, 22, 23, 31, 33):
                out.append(rep_policy(v))
            elif code == 12:
                out.append(index_arg(v))
            elif code == 15:
                if not isinstance(v, list):
                    raise RefError("try-each: list expected")
                out.append([enc(sequence(s, ctx)) for s in v])
            elif code in (19, 20):
                out.append(parameters(v, ctx))
            elif code == 32:
                out.append(enc(sequence(v, ctx)))
            else:
                raise RefError(f"command {k}")
    return out


# ---------------------------------------------------------------------------------------------------
# text
# ---------------------------------------------------------------------------------------------------

def text_map(o):
    if not isinstance(o, dict):
        raise RefError("text map: dict expected")
    out = []
    for lang, lm in o.items():
        _tstr(lang, "language tag")
        # a key written as a JSON string ('"419"') denotes that string (the tool decodes map keys as JSON where it can,
        # which is how a tag that reads like a number or a literal is written unambiguously)
        if len(lang) >= 2 and lang[0] == '"' and lang[-1] == '"':
            try:
                dec = json.loads(lang)
                if isinstance(dec, str):
                    lang = dec
            except ValueError:
                pass
        if not isinstance(lm, dict):
            raise RefError("language map: dict expected")
        entries = []
        for k, v in lm.items():
            if k in R.TEXT_KEYS:
                entries.append((R.TEXT_KEYS[k], _tstr(v, k)))
                continue
            try:
                cid = json.loads(k)
            except (ValueError, TypeError):
                raise RefError(f"text key {k!r}")
            if not isinstance(cid, list):
                raise RefError(f"text key {k!r}")
            if not isinstance(v, dict):
                raise RefError("component text: dict expected")
            comp = {}
            for kk, vv in v.items():
                comp[_name(R.TEXT_COMPONENT_KEYS, kk, "component text key")] = _tstr(vv, kk)
            entries.append((Raw(enc(component_id(cid))), comp))
        from .refcbor import Pairs
        out.append((lang, Pairs(entries)))
    from .refcbor import Pairs
    return Pairs(out)


# ---------------------------------------------------------------------------------------------------
# manifest / envelope
# ---------------------------------------------------------------------------------------------------

SEQ_MEMBERS = {7, 8, 9, 24}
SEVERABLE_SEQ = {15, 16, 17, 18, 20}


def common(o, ctx):
    if not isinstance(o, dict):
        raise RefError("common: dict expected")
    out = {}
    for k, v in o.items():
        code = _name(R.COMMON, k, "common member")
        if code == 1:
            if not isinstance(v, dict):
                raise RefError("dependencies: dict expected")
            deps = {}
            for dk, dv in v.items():
                if not isinstance(dk, str) or not dk.isdigit():
                    raise RefError(f"dependency index {dk!r}")
                if not isinstance(dv, dict):
                    raise RefError("dependency metadata: dict expected")
                md = {}
                for mk, mv in dv.items():
                    md[_name(R.DEPENDENCY_METADATA, mk, "dependency metadata")] = component_id(mv)
                deps[int(dk)] = md
            out[1] = deps
        elif code == 2:
            if not isinstance(v, list):
                raise RefError("components: list expected")
            out[2] = [component_id(c) for c in v]
        else:
            out[4] = enc(sequence(v, ctx))
    return out


def manifest(o, ctx):
    """-> (python map, dict code -> digest pair for members given as digests)"""
    if not isinstance(o, dict):
        raise RefError("manifest: dict expected")
    out = {}
    for k, v in o.items():
        code = _name(R.MANIFEST, k, "manifest member")
        if code in (1, 2):
            out[code] = _uint(v, k)
        elif code == 3:
            out[code] = enc(common(v, ctx))
        elif code == 4:
            out[code] = _tstr(v, k)
        elif code == 5:
            out[code] = component_id(v)
        elif code == 6:
            out[code] = enc(version_list(v))
        elif code in SEQ_MEMBERS:
            out[code] = enc(sequence(v, ctx))
        elif code in SEVERABLE_SEQ:
            out[code] = digest_pair(v, ctx) if isinstance(v, dict) else enc(sequence(v, ctx))
        elif code == 23:
            if isinstance(v, dict) and "suit-digest-algorithm-id" in v:
                out[code] = digest_pair(v, ctx)
            else:
                raise RefError("text map embedded unsevered in the manifest: outside the reference language")
    return out


def payload_bytes(v, ctx):
    if isinstance(v, dict):
        return encode_envelope(v, ctx.fs)
    if not isinstance(v, str):
        raise RefError(f"integrated payload: {v!r}")
    if all(c in string.hexdigits for c in v):
        return _hex(v)
    return ctx.fs.read(v)


def encode_envelope(desc, fs) -> bytes:
    ctx = Ctx(fs if isinstance(fs, FS) else FS(fs))
    if not isinstance(desc, dict) or "SUIT_Envelope_Tagged" not in desc:
        raise RefError("SUIT_Envelope_Tagged expected")
    e = desc["SUIT_Envelope_Tagged"]
    if not isinstance(e, dict):
        raise RefError("envelope: dict expected")
    members = []           # (key, kind, value)
    names = set()
    man = None
    auth = None
    for k, v in e.items():
        if k in R.ENVELOPE_PSEUDO:
            if not isinstance(v, dict):
                raise RefError(f"{k}: dict expected")
            for n, pv in v.items():
                _tstr(n, "payload name")
                if n in names:
                    raise RefError(f"duplicate integrated member {n!r}")
                names.add(n)
                members.append((n, "payload", payload_bytes(pv, ctx)))
            continue
        code = _name(R.ENVELOPE, k, "envelope member")
        if code == 1:
            raise RefError("suit-delegation: outside the reference language")
        if code == 2:
            auth = auth_wrapper(v, ctx)
            members.append((2, "auth", None))
        elif code == 3:
            man = manifest(v, ctx)
            members.append((3, "manifest", None))
        elif code == 23:
            members.append((23, "severed", enc(text_map(v))))
        else:
            members.append((code, "severed", enc(sequence(v, ctx))))
    # refresh: severed-member digests (where the body is present), then the wrapper digest over B(manifest)
    if man is not None:
        for code, kind, body in members:
            if kind == "severed" and code in man and isinstance(man[code], list) and len(man[code]) == 2 \
                    and isinstance(man[code][0], int) and isinstance(man[code][1], (bytes, bytearray)):
                man[code] = [man[code][0], R.digest(man[code][0], enc(body))]
    man_b = enc(enc(man)) if man is not None else None
    if auth is not None:
        if man_b is None:
            raise RefError("authentication wrapper without manifest")
        d = decode(auth[0])
        alg = d.items[0].value
        auth[0] = enc([alg, R.digest(alg, man_b)])
    out = {}
    for key, kind, body in members:
        if key in out:
            raise RefError(f"duplicate envelope member {key}")
        if kind == "auth":
            out[key] = enc(auth)
        elif kind == "manifest":
            out[key] = enc(man)
        else:
            out[key] = body
    return enc(Tag(107, out))
