"""Independent RFC 8949 reader (with byte spans) and canonical-form writer.  Imports nothing from the tool or cbor2."""
from __future__ import annotations

import struct


class CborError(ValueError):
    pass


class Item:
    __slots__ = ("kind", "value", "start", "head", "end", "items", "indef", "width")

    def __init__(self, kind, value, start, head, end, items=None, indef=False, width=0):
        self.kind = kind      # uint nint bstr tstr array map tag simple float
        self.value = value    # int | bytes | str | tag number | simple code | float
        self.start = start    # offset of the initial byte
        self.head = head      # length of the head (initial byte + argument)
        self.end = end        # offset one past the item
        self.items = items    # array: [Item]; map: [(Item, Item)]; tag: [Item]
        self.indef = indef
        self.width = width    # argument width in bytes (0 = in initial byte)

    def raw(self, data):
        return data[self.start:self.end]

    def content_span(self):
        return (self.start + self.head, self.end)

    def __repr__(self):
        return f"Item({self.kind},{self.value!r},@{self.start}+{self.head}..{self.end})"

    # convenience for maps
    def get(self, key):
        assert self.kind == "map"
        for k, v in self.items:
            if k.kind in ("uint", "nint", "tstr", "bstr") and k.value == key and type(k.value) is type(key):
                return v
        return None

    def keys(self):
        return [k.value for k, _ in self.items]


def _arg(data, off, ai):
    if ai < 24:
        return ai, 0
    if ai == 24:
        n = 1
    elif ai == 25:
        n = 2
    elif ai == 26:
        n = 4
    elif ai == 27:
        n = 8
    else:
        raise CborError(f"reserved additional info {ai} at {off}")
    if off + 1 + n > len(data):
        raise CborError("truncated head")
    return int.from_bytes(data[off + 1:off + 1 + n], "big"), n


def decode_at(data: bytes, off: int = 0, depth: int = 0) -> Item:
    if depth > 400:
        raise CborError("nesting too deep")
    if off >= len(data):
        raise CborError("truncated: no initial byte")
    ib = data[off]
    mt, ai = ib >> 5, ib & 31
    if ai == 31:
        if mt in (0, 1, 6):
            raise CborError("indefinite marker on int/tag")
        if mt == 7:
            raise CborError("unexpected break")
        pos = off + 1
        if mt in (2, 3):
            parts = []
            while True:
                if pos >= len(data):
                    raise CborError("truncated indefinite string")
                if data[pos] == 0xFF:
                    pos += 1
                    break
                ch = decode_at(data, pos, depth + 1)
                if ch.kind != ("bstr" if mt == 2 else "tstr") or ch.indef:
                    raise CborError("bad chunk in indefinite string")
                parts.append(ch.value)
                pos = ch.end
            v = b"".join(parts) if mt == 2 else "".join(parts)
            return Item("bstr" if mt == 2 else "tstr", v, off, 1, pos, indef=True)
        if mt == 4:
            items = []
            while True:
                if pos >= len(data):
                    raise CborError("truncated indefinite array")
                if data[pos] == 0xFF:
                    pos += 1
                    break
                ch = decode_at(data, pos, depth + 1)
                items.append(ch)
                pos = ch.end
            return Item("array", len(items), off, 1, pos, items, indef=True)
        if mt == 5:
            items = []
            while True:
                if pos >= len(data):
                    raise CborError("truncated indefinite map")
                if data[pos] == 0xFF:
                    pos += 1
                    break
                k = decode_at(data, pos, depth + 1)
                v = decode_at(data, k.end, depth + 1)
                items.append((k, v))
                pos = v.end
            return Item("map", len(items), off, 1, pos, items, indef=True)
    if mt == 7:
        if ai < 24:
            return Item("simple", ai, off, 1, off + 1)
        if ai == 24:
            if off + 2 > len(data):
                raise CborError("truncated simple")
            return Item("simple", data[off + 1], off, 2, off + 2, width=1)
        n = {25: 2, 26: 4, 27: 8}.get(ai)
        if n is None:
            raise CborError("reserved simple")
        if off + 1 + n > len(data):
            raise CborError("truncated float")
        raw = data[off + 1:off + 1 + n]
        f = struct.unpack({2: ">e", 4: ">f", 8: ">d"}[n], raw)[0]
        return Item("float", f, off, 1 + n, off + 1 + n, width=n)
    val, w = _arg(data, off, ai)
    head = 1 + w
    if mt == 0:
        return Item("uint", val, off, head, off + head, width=w)
    if mt == 1:
        return Item("nint", -1 - val, off, head, off + head, width=w)
    if mt in (2, 3):
        end = off + head + val
        if end > len(data):
            raise CborError(f"string of length {val} at {off} exceeds input")
        raw = data[off + head:end]
        if mt == 2:
            return Item("bstr", bytes(raw), off, head, end, width=w)
        try:
            return Item("tstr", bytes(raw).decode("utf-8"), off, head, end, width=w)
        except UnicodeDecodeError as e:
            raise CborError(f"invalid utf-8 in tstr at {off}: {e}")
    if mt == 4:
        if val > len(data):
            raise CborError("array length exceeds input")
        pos = off + head
        items = []
        for _ in range(val):
            ch = decode_at(data, pos, depth + 1)
            items.append(ch)
            pos = ch.end
        return Item("array", val, off, head, pos, items, width=w)
    if mt == 5:
        if val > len(data):
            raise CborError("map length exceeds input")
        pos = off + head
        items = []
        for _ in range(val):
            k = decode_at(data, pos, depth + 1)
            v = decode_at(data, k.end, depth + 1)
            items.append((k, v))
            pos = v.end
        return Item("map", val, off, head, pos, items, width=w)
    if mt == 6:
        ch = decode_at(data, off + head, depth + 1)
        return Item("tag", val, off, head, ch.end, [ch], width=w)
    raise CborError("unreachable")


def decode(data: bytes) -> Item:
    """Decode exactly one item spanning the whole input."""
    it = decode_at(data, 0)
    if it.end != len(data):
        raise CborError(f"{len(data) - it.end} trailing bytes after item")
    return it


class Tag:
    __slots__ = ("tag", "value")

    def __init__(self, tag, value):
        self.tag = tag
        self.value = value

    def __eq__(self, o):
        return isinstance(o, Tag) and o.tag == self.tag and o.value == self.value

    def __repr__(self):
        return f"Tag({self.tag},{self.value!r})"


class Raw:
    """Pre-encoded CBOR spliced verbatim by enc()."""
    __slots__ = ("data",)

    def __init__(self, data):
        self.data = bytes(data)


class Simple:
    __slots__ = ("code",)

    def __init__(self, code):
        self.code = code

    def __eq__(self, o):
        return isinstance(o, Simple) and o.code == self.code

    def __hash__(self):
        return hash(("simple", self.code))

    def __repr__(self):
        return f"Simple({self.code})"


class Pairs(list):
    """A CBOR map as ordered (key, value) pairs (keys may be unhashable / duplicated)."""


def to_py(it: Item, pairs=False):
    """Item -> python value; maps become dicts (or Pairs when pairs=True or keys unhashable)."""
    k = it.kind
    if k in ("uint", "nint", "bstr", "tstr", "float"):
        return it.value
    if k == "simple":
        return {20: False, 21: True, 22: None}.get(it.value, Simple(it.value))
    if k == "array":
        return [to_py(x, pairs) for x in it.items]
    if k == "tag":
        return Tag(it.value, to_py(it.items[0], pairs))
    if k == "map":
        pr = Pairs((to_py(a, pairs), to_py(b, pairs)) for a, b in it.items)
        if pairs:
            return pr
        try:
            d = {}
            for a, b in pr:
                if isinstance(a, list):
                    a = tuple(a)
                if a in d:
                    return pr
                d[a] = b
            return d
        except TypeError:
            return pr
    raise CborError(k)


def head(mt: int, n: int) -> bytes:
    if n < 24:
        return bytes([(mt << 5) | n])
    if n < 0x100:
        return bytes([(mt << 5) | 24, n])
    if n < 0x10000:
        return bytes([(mt << 5) | 25]) + n.to_bytes(2, "big")
    if n < 0x100000000:
        return bytes([(mt << 5) | 26]) + n.to_bytes(4, "big")
    if n < 0x10000000000000000:
        return bytes([(mt << 5) | 27]) + n.to_bytes(8, "big")
    raise CborError("integer out of 64-bit range")


def enc(o) -> bytes:
    """Canonical-form writer: definite lengths, shortest heads, map entries in the given order."""
    if isinstance(o, Raw):
        return o.data
    if o is None:
        return b"\xf6"
    if o is True:
        return b"\xf5"
    if o is False:
        return b"\xf4"
    if isinstance(o, int):
        return head(0, o) if o >= 0 else head(1, -1 - o)
    if isinstance(o, (bytes, bytearray)):
        return head(2, len(o)) + bytes(o)
    if isinstance(o, str):
        b = o.encode("utf-8")
        return head(3, len(b)) + b
    if isinstance(o, Pairs):
        return head(5, len(o)) + b"".join(enc(k) + enc(v) for k, v in o)
    if isinstance(o, (list, tuple)):
        return head(4, len(o)) + b"".join(enc(x) for x in o)
    if isinstance(o, dict):
        return head(5, len(o)) + b"".join(enc(k) + enc(v) for k, v in o.items())
    if isinstance(o, Tag):
        return head(6, o.tag) + enc(o.value)
    if isinstance(o, Simple):
        return bytes([0xE0 | o.code]) if o.code < 24 else bytes([0xF8, o.code])
    raise CborError(f"cannot encode {type(o)}")


def is_canonical(data: bytes, it: Item = None) -> str | None:
    """None if every head in the tree is definite-length and shortest-form, else a description."""
    it = it or decode(data)

    def walk(x):
        if x.indef:
            return f"indefinite length at {x.start}"
        if x.kind in ("uint", "nint", "bstr", "tstr", "array", "map", "tag"):
            n = {"uint": x.value, "nint": -1 - x.value if x.kind == "nint" else 0, "tag": x.value}.get(x.kind)
            if x.kind in ("bstr",):
                n = len(x.value)
            elif x.kind == "tstr":
                n = len(x.value.encode())
            elif x.kind in ("array", "map"):
                n = x.value
            if len(head(0, n)) != x.head:
                return f"non-shortest head at {x.start}"
        if x.kind == "array" or x.kind == "tag":
            for c in x.items:
                r = walk(c)
                if r:
                    return r
        if x.kind == "map":
            for a, b in x.items:
                r = walk(a) or walk(b)
                if r:
                    return r
        return None

    return walk(it)
