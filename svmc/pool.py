"""A minimal fork-based worker pool without helper threads.

multiprocessing.Pool keeps three helper threads in the master; forking further processes while such threads exist is a
known source of rare deadlocks (observed here as a check that never returned, ~3 in 300 runs).  This pool keeps the
master single-threaded: it forks N workers, talks to each over a pair of pipes with a select() loop, hands out tasks
dynamically, and treats a worker that dies or exceeds the per-task stall limit as a recoverable event (the worker is
killed, the task is re-run in a fresh worker; tasks are deterministic, so re-running is sound).
"""
from __future__ import annotations

import os
import pickle
import select
import signal
import struct
import sys
import time
import traceback


class PoolError(Exception):
    pass


def _write_msg(fd, obj):
    data = pickle.dumps(obj, protocol=pickle.HIGHEST_PROTOCOL)
    data = struct.pack(">Q", len(data)) + data
    view = memoryview(data)
    while view:
        n = os.write(fd, view)
        view = view[n:]


def _read_exact(fd, n):
    buf = bytearray()
    while len(buf) < n:
        chunk = os.read(fd, min(1 << 20, n - len(buf)))
        if not chunk:
            raise EOFError
        buf += chunk
    return bytes(buf)


def _read_msg(fd):
    n = struct.unpack(">Q", _read_exact(fd, 8))[0]
    return pickle.loads(_read_exact(fd, n))


class _Worker:
    __slots__ = ("pid", "to_w", "from_w", "task", "since", "reaped")

    def __init__(self, func):
        r_task, w_task = os.pipe()
        r_res, w_res = os.pipe()
        sys.stdout.flush()
        sys.stderr.flush()
        pid = os.fork()
        if pid == 0:
            # ---- worker ----
            try:
                signal.signal(signal.SIGTERM, signal.SIG_DFL)
                signal.signal(signal.SIGINT, signal.SIG_IGN)
                os.close(w_task)
                os.close(r_res)
                while True:
                    try:
                        msg = _read_msg(r_task)
                    except EOFError:
                        break
                    if msg is None:
                        break
                    idx, task = msg
                    try:
                        res = ("ok", idx, func(task))
                    except BaseException as e:      # noqa - reported to the master, which decides
                        res = ("exc", idx, (type(e).__name__, str(e), traceback.format_exc()))
                    _write_msg(w_res, res)
            finally:
                os._exit(0)
        # ---- master ----
        os.close(r_task)
        os.close(w_res)
        self.pid, self.to_w, self.from_w = pid, w_task, r_res
        self.task = None
        self.since = 0.0
        self.reaped = False

    def send(self, idx, task):
        self.task = idx
        self.since = time.time()
        _write_msg(self.to_w, (idx, task))

    def kill(self):
        for fd in (self.to_w, self.from_w):
            try:
                os.close(fd)
            except OSError:
                pass
        if self.reaped:
            return
        try:
            os.kill(self.pid, signal.SIGKILL)
        except OSError:
            pass
        try:
            os.waitpid(self.pid, 0)
        except OSError:
            pass
        self.reaped = True


def run(func, tasks, workers=16, stall_s=1800.0, retries=2, on_exception=None):
    """results of func(task) for every task, in task order.  Exceptions raised by func are re-raised as PoolError
    (or handed to on_exception(name, text, tb) which may raise something more specific)."""
    tasks = list(tasks)
    n = len(tasks)
    results = [None] * n
    done = [False] * n
    attempts = [0] * n
    queue = list(range(n))[::-1]        # pop() from the end = ascending order
    pool = []
    try:
        for _ in range(min(workers, n)):
            pool.append(_Worker(func))
        idle = list(pool)
        remaining = n
        while remaining:
            while idle and queue:
                w = idle.pop()
                i = queue.pop()
                attempts[i] += 1
                try:
                    w.send(i, tasks[i])
                except OSError:
                    # the worker is gone: replace it, requeue
                    w.kill()
                    pool.remove(w)
                    queue.append(i)
                    attempts[i] -= 1
                    nw = _Worker(func)
                    pool.append(nw)
                    idle.append(nw)
            busy = [w for w in pool if w.task is not None]
            if not busy:
                if queue:
                    continue
                raise PoolError("internal: tasks remaining but no busy worker")
            rl, _, _ = select.select([w.from_w for w in busy], [], [], 5.0)
            now = time.time()
            for w in busy:
                if w.from_w in rl:
                    try:
                        kind, idx, payload = _read_msg(w.from_w)
                    except (EOFError, OSError, pickle.UnpicklingError):
                        kind, idx, payload = "dead", w.task, None
                    if kind == "ok":
                        results[idx] = payload
                        done[idx] = True
                        remaining -= 1
                        w.task = None
                        idle.append(w)
                        continue
                    if kind == "exc":
                        if on_exception:
                            on_exception(*payload)
                        raise PoolError(f"{payload[0]}: {payload[1]}\n{payload[2]}")
                    # dead worker
                    _replace(pool, idle, w, func)
                    _requeue(idx, attempts, retries, queue, "died")
                elif now - w.since > stall_s:
                    idx = w.task
                    _replace(pool, idle, w, func)
                    _requeue(idx, attempts, retries, queue, f"produced no result for {stall_s:.0f} s")
        return results
    finally:
        for w in pool:
            try:
                _write_msg(w.to_w, None)
            except OSError:
                pass
        deadline = time.time() + 2.0
        for w in pool:
            # give workers a moment to exit on their own, then make sure they are gone
            while time.time() < deadline:
                try:
                    pid, _ = os.waitpid(w.pid, os.WNOHANG)
                except OSError:
                    pid = w.pid
                if pid:
                    w.reaped = True
                    break
                time.sleep(0.01)
            w.kill()


def _replace(pool, idle, w, func):
    w.kill()
    pool.remove(w)
    if w in idle:
        idle.remove(w)
    nw = _Worker(func)
    pool.append(nw)
    idle.append(nw)


def _requeue(idx, attempts, retries, queue, why):
    if attempts[idx] > retries:
        raise PoolError(f"task {idx}: worker {why} ({attempts[idx]} attempts)")
    print(f"svmc.pool: worker {why} on task {idx}; re-running it in a fresh worker", file=sys.stderr)
    queue.append(idx)
