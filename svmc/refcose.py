"""COSE reference: Sig_structure / Enc_structure builders and signature verification (RFC 9052/9053, RFC 8032)."""
from __future__ import annotations

import hashlib

from cryptography.exceptions import InvalidSignature, InvalidTag
from cryptography.hazmat.primitives import hashes
from cryptography.hazmat.primitives.asymmetric import ec, ed25519, ed448
from cryptography.hazmat.primitives.asymmetric.utils import encode_dss_signature
from cryptography.hazmat.primitives.ciphers.aead import AESGCM

from .refcbor import enc

ALG_ES256, ALG_ES384, ALG_ES521, ALG_EDDSA, ALG_HASH_EDDSA = -7, -35, -36, -8, -65537
ALG_BY_NAME = {"es-256": ALG_ES256, "es-384": ALG_ES384, "es-521": ALG_ES521, "eddsa": ALG_EDDSA, "hash-eddsa": ALG_HASH_EDDSA}
ES_PARAMS = {ALG_ES256: (256, hashes.SHA256, 32), ALG_ES384: (384, hashes.SHA384, 48), ALG_ES521: (521, hashes.SHA512, 66)}


def sig_structure(protected: bytes, payload: bytes) -> bytes:
    """Sig_structure for COSE_Sign1: ['Signature1', protected (bstr), external_aad h'', payload (bstr)]"""
    return enc(["Signature1", protected, b"", payload])


def enc_structure(protected: bytes, context="Encrypt") -> bytes:
    return enc([context, protected, b""])


def verify(alg: int, public_key, signature: bytes, tbs: bytes) -> str | None:
    """None if the signature verifies, else a description."""
    if alg in ES_PARAMS:
        bits, h, n = ES_PARAMS[alg]
        if not isinstance(public_key, ec.EllipticCurvePublicKey) or public_key.curve.key_size != bits:
            return f"key is not a P-{bits} key"
        if len(signature) != 2 * n:
            return f"ECDSA signature is {len(signature)} bytes, fixed-width r||s is {2 * n}"
        r, s = int.from_bytes(signature[:n], "big"), int.from_bytes(signature[n:], "big")
        try:
            public_key.verify(encode_dss_signature(r, s), tbs, ec.ECDSA(h()))
            return None
        except InvalidSignature:
            return "ECDSA signature does not verify"
    if alg == ALG_EDDSA:
        try:
            public_key.verify(signature, tbs)
            return None
        except InvalidSignature:
            return "EdDSA signature does not verify"
    if alg == ALG_HASH_EDDSA:
        if not isinstance(public_key, ed25519.Ed25519PublicKey):
            return "HashEdDSA: not an Ed25519 key"
        from cryptography.hazmat.primitives import serialization
        raw = public_key.public_bytes(serialization.Encoding.Raw, serialization.PublicFormat.Raw)
        return None if ed25519ph_verify(raw, tbs, signature) else "Ed25519ph signature does not verify"
    return f"unknown algorithm {alg}"


# -- pure-Python Ed25519ph verification (RFC 8032 section 5.1), so that HashEdDSA does not rest on the signing library
_p = 2**255 - 19
_L = 2**252 + 27742317777372353535851937790883648493
_d = -121665 * pow(121666, _p - 2, _p) % _p
_I = pow(2, (_p - 1) // 4, _p)


def _recover_x(y, sign):
    if y >= _p:
        return None
    x2 = (y * y - 1) * pow(_d * y * y + 1, _p - 2, _p)
    if x2 == 0:
        return None if sign else 0
    x = pow(x2, (_p + 3) // 8, _p)
    if (x * x - x2) % _p != 0:
        x = x * _I % _p
    if (x * x - x2) % _p != 0:
        return None
    if (x & 1) != sign:
        x = _p - x
    return x


_Gy = 4 * pow(5, _p - 2, _p) % _p
_Gx = _recover_x(_Gy, 0)
_G = (_Gx, _Gy, 1, _Gx * _Gy % _p)


def _add(P, Q):
    A = (P[1] - P[0]) * (Q[1] - Q[0]) % _p
    B = (P[1] + P[0]) * (Q[1] + Q[0]) % _p
    C = 2 * P[3] * Q[3] * _d % _p
    D = 2 * P[2] * Q[2] % _p
    E, F, G, H = B - A, D - C, D + C, B + A
    return (E * F % _p, G * H % _p, F * G % _p, E * H % _p)


def _mul(s, P):
    Q = (0, 1, 1, 0)
    while s > 0:
        if s & 1:
            Q = _add(Q, P)
        P = _add(P, P)
        s >>= 1
    return Q


def _eq(P, Q):
    return (P[0] * Q[2] - Q[0] * P[2]) % _p == 0 and (P[1] * Q[2] - Q[1] * P[2]) % _p == 0


def _decompress(s):
    if len(s) != 32:
        return None
    y = int.from_bytes(s, "little")
    sign = y >> 255
    y &= (1 << 255) - 1
    x = _recover_x(y, sign)
    if x is None:
        return None
    return (x, y, 1, x * y % _p)


def ed25519ph_verify(public: bytes, msg: bytes, sig: bytes, context: bytes = b"") -> bool:
    if len(sig) != 64:
        return False
    A = _decompress(public)
    R = _decompress(sig[:32])
    if A is None or R is None:
        return False
    s = int.from_bytes(sig[32:], "little")
    if s >= _L:
        return False
    dom2 = b"SigEd25519 no Ed25519 collisions" + bytes([1, len(context)]) + context
    ph = hashlib.sha512(msg).digest()
    h = int.from_bytes(hashlib.sha512(dom2 + sig[:32] + public + ph).digest(), "little") % _L
    return _eq(_mul(s, _G), _add(R, _mul(h, A)))


def aes_gcm_decrypt(key: bytes, iv: bytes, ciphertext: bytes, tag: bytes, aad: bytes):
    """-> plaintext or None"""
    try:
        return AESGCM(key).decrypt(iv, ciphertext + tag, aad)
    except (InvalidTag, ValueError):
        return None
